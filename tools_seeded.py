#!/usr/bin/env python3
"""Confirm and evaluate a seeded change kept under /verif/seeded/<id>/.

  python3 tools_seeded.py <id> confirm   # scratch worktree: demo passes without, fails with; test-suite still passes
  python3 tools_seeded.py <id> check [--tier quick] [--runs N]   # apply to /repo, run the property's check, undo
  python3 tools_seeded.py all check
"""
import json, os, subprocess, sys, time, glob

ROOT = os.path.dirname(os.path.abspath(__file__))


def sh(cmd, cwd=None, timeout=3600):
    p = subprocess.run(cmd, shell=True, cwd=cwd, capture_output=True, text=True, timeout=timeout)
    return p.returncode, p.stdout + p.stderr


def confirm(sid):
    d = os.path.join(ROOT, "seeded", sid)
    meta = json.load(open(os.path.join(d, "meta.json")))
    wt = "/tmp/wt_verify_%s" % sid
    sh("git -C /repo worktree remove --force %s" % wt)
    rc, out = sh("git -C /repo worktree add -q %s HEAD" % wt)
    assert rc == 0, out
    try:
        demo = meta["demo"]
        sh("cp %s %s/" % (os.path.join(d, demo), wt))
        rc0, o0 = sh("/venv/bin/python %s" % demo, cwd=wt)
        rc, out = sh("git apply %s" % os.path.join(d, "patch.diff"), cwd=wt)
        assert rc == 0, out
        rc1, o1 = sh("/venv/bin/python %s" % demo, cwd=wt)
        rct, ot = sh("OMP_NUM_THREADS=1 MKL_NUM_THREADS=1 /venv/bin/python -m pytest -q -p no:cacheprovider --timeout=900 tests 2>&1 | tail -12", cwd=wt)
        print("%s: demo without change exit=%d, with change exit=%d" % (sid, rc0, rc1))
        print(ot.strip().splitlines()[-1])
        fails = [l for l in ot.splitlines() if l.startswith("FAILED") and "NaiveLinearTest" not in l and "test_random_orthogonal" not in l]
        ok = rc0 == 0 and rc1 != 0 and not fails and "147 passed" in ot
        print("CONFIRMED" if ok else "NOT CONFIRMED", fails)
        return ok
    finally:
        sh("git -C /repo worktree remove --force %s" % wt)


def check(sid, extra):
    d = os.path.join(ROOT, "seeded", sid)
    meta = json.load(open(os.path.join(d, "meta.json")))
    rc, out = sh("git -C /repo status --porcelain")
    assert out.strip() == "", "/repo not clean: " + out
    rc, out = sh("git -C /repo apply %s" % os.path.join(d, "patch.diff"))
    assert rc == 0, out
    try:
        t0 = time.time()
        rc, out = sh("/venv/bin/python check %s --no-evidence %s" % (meta["property"], extra), cwd=ROOT)
        v = [l for l in out.splitlines() if l.startswith("  violation kind=")]
        print("%-28s %s exit=%d %5.1fs %s" % (sid, meta["property"], rc, time.time() - t0, (v[0].strip()[:170] if v else "")))
        if rc == 2:
            print(out[-1500:])
        return rc
    finally:
        sh("git -C /repo checkout -- .")


if __name__ == "__main__":
    sid, what = sys.argv[1], sys.argv[2]
    extra = " ".join(sys.argv[3:])
    ids = sorted(os.path.basename(p) for p in glob.glob(os.path.join(ROOT, "seeded", "*")) if os.path.isdir(p)) if sid == "all" else [sid]
    bad = 0
    for i in ids:
        if what == "confirm":
            bad += 0 if confirm(i) else 1
        else:
            bad += 0 if check(i, extra) == 1 else 1
    sys.exit(1 if bad else 0)
