"""The model zoo: JSON-able specs -> real nflows objects plus what a caller needs
to know to use them (event shape, context shape, input domain, supported calls).

Used by C13 (side-effect freedom) and C15 (save / reload).  A spec never holds
tensors; all randomness of construction comes from the global torch RNG, which
the caller seeds (that is the seam the crash+restart fault varies).
"""
from . import core
from .core import HarnessError


class Entry:
    def __init__(self, obj, kind, shape, ctx=None, fdom="real", inverse=True, sample=False,
                 ctx_required=False, idom=None, slow=False, ishape=None):
        self.obj = obj
        self.kind = kind          # transform | dist | flow
        self.shape = tuple(shape)  # event shape (without batch)
        self.ishape = tuple(ishape) if ishape is not None else tuple(shape)   # event shape of inverse inputs
        self.ctx = None if ctx is None else tuple(ctx)
        self.fdom = fdom          # domain of forward / log_prob inputs: real | unit | pos | binary
        self.idom = idom          # domain of inverse inputs when they can be drawn directly (else: forward outputs)
        self.inverse = inverse
        self.sample = sample
        self.ctx_required = ctx_required
        self.slow = slow

    def calls(self):
        if self.kind == "transform":
            return ["forward", "inverse"] if self.inverse else ["forward"]
        c = ["log_prob"]
        if self.sample:
            c += ["sample", "sample_and_log_prob"]
        if self.kind == "flow":
            c += ["transform_to_noise"]
        return c


# ---------------------------------------------------------------------------
# spec generation
# ---------------------------------------------------------------------------

COUPLING = ["affine", "additive", "plinear", "pquadratic", "pcubic", "prq", "umnn"]
AUTOREG = ["affine", "plinear", "pquadratic", "pcubic", "prq", "umnn"]
LINEAR = ["LU", "QR", "SVD", "Naive", "Conv", "Householder"]
NONLIN = ["Exp", "Tanh", "LogTanh", "LeakyReLU", "Sigmoid", "SigmoidLearned", "Logit", "GLU", "CauchyCDF", "CauchyCDFInverse",
          "PLCDF", "PQCDF", "PCCDF", "PRQCDF", "CompositeCDF"]
SIMPLE = ["Identity", "PointwiseAffine", "AffineTransform", "RandomPermutation", "ReversePermutation", "Permutation",
          "Squeeze", "ActNorm", "ActNorm4", "BatchNorm"]
DISTS = ["StandardNormal", "ConditionalDiagonalNormal", "DiagonalNormal", "Bernoulli", "MADEMoG"]
FLOWS = ["MAF", "RealNVP", "Flow"]

FAMILIES = {"coupling": 4, "autoreg": 4, "linear": 2, "nonlin": 3, "simple": 2, "container": 3, "dist": 2, "flow": 4}


def gen_spec(rng, allow_slow=True, depth=0):
    fam = rng.weighted(list(FAMILIES), list(FAMILIES.values()))
    if depth > 0 and fam in ("dist", "flow"):
        fam = "coupling"
    spec = _gen(fam, rng, allow_slow, depth)
    if depth == 0:
        # "trained weights": a seeded perturbation of every floating-point parameter after construction, so that
        # biases, temperatures, affine parameters etc. are not at their (often zero / identity) initial values
        spec["perturb"] = rng.pick([0.0, 0.0, 0.2])
    return spec


def _net(rng):
    return {"hidden": rng.pick([4, 6]), "blocks": rng.pick([1, 1, 2]), "bn": rng.chance(0.3),
            "dropout": rng.pick([0.0, 0.0, 0.0, 0.3])}


def _gen(fam, rng, allow_slow, depth):
    if fam == "coupling":
        v = rng.pick(COUPLING)
        if v == "umnn" and not allow_slow:
            v = "prq"
        s = {"family": fam, "variant": v, "F": rng.pick([2, 3, 4]), "ctx": rng.pick([0, 0, 2]), "net": _net(rng),
             "dims": rng.weighted([2, 4], [4, 1]), "mask": rng.pick(["alt", "mid", "random"]),
             "tails": rng.pick([None, "linear"]), "bins": rng.pick([2, 3, 5]), "uncond": rng.chance(0.25)}
        if v == "umnn":
            s.update(dims=2, uncond=False)   # UMNN's unconditional transform cannot be called by CouplingTransform (library limitation)
        if v in ("affine", "additive"):
            s["uncond"] = False
        if s["dims"] == 4:
            s["hw"] = [rng.pick([1, 2]), rng.pick([1, 2])]
            s["ctx"] = rng.pick([0, 0, 1])
            s["uncond"] = False
        return s
    if fam == "autoreg":
        v = rng.pick(AUTOREG)
        if v == "umnn" and not allow_slow:
            v = "affine"
        s = {"family": fam, "variant": v, "F": rng.pick([2, 3, 4]), "ctx": rng.pick([0, 0, 2]), "hidden": rng.pick([4, 8]),
             "blocks": rng.pick([1, 2]), "residual": rng.chance(0.6), "random_mask": False, "bn": rng.chance(0.3),
             "dropout": rng.pick([0.0, 0.0, 0.3]), "tails": rng.pick([None, "linear"]), "bins": rng.pick([2, 3, 5])}
        if not s["residual"]:
            s["random_mask"] = rng.chance(0.6)
        return s
    if fam == "linear":
        v = rng.pick(LINEAR)
        F = rng.pick([1, 2, 3, 4])
        s = {"family": fam, "variant": v, "F": F, "identity_init": rng.chance(0.4), "hw": [rng.pick([1, 2]), rng.pick([1, 2])]}
        s["K"] = rng.pick([k for k in (1, 2, 3, 4, 2 * F) if (k <= 2 * F if k % 2 == 0 else k <= 2 * F - 1)])
        if v == "SVD":
            s["K"] = rng.pick([k for k in (2, 4, 2 * F) if k <= 2 * F])
        return s
    if fam == "nonlin":
        v = rng.pick(NONLIN)
        return {"family": fam, "variant": v, "F": rng.pick([1, 2, 3]), "tails": rng.pick([None, "linear"]),
                "bins": rng.pick([2, 4]), "dims": rng.weighted([2, 4], [4, 1]), "hw": [2, 1], "temperature": rng.pick([1.0, 0.5, 2.0])}
    if fam == "simple":
        v = rng.pick(SIMPLE)
        return {"family": fam, "variant": v, "F": rng.pick([2, 3, 4]), "hw": [2, 2], "momentum": rng.pick([0.1, 0.5])}
    if fam == "container":
        v = rng.pick(["composite", "inverse", "multiscale", "composite", "chain", "chain"])
        if v == "inverse":
            inner = _gen(rng.pick(["coupling", "autoreg", "linear", "simple", "nonlin"]), rng, False, depth + 1)
            return {"family": fam, "variant": v, "inner": inner}
        if v == "chain":
            # a CompositeTransform of arbitrary zoo members (2-D, no context, same feature count) whose
            # input/output domains chain: nested versions of everything, incl. learned temperatures
            F = rng.pick([2, 3])
            parts, dom = [], "real"
            for _ in range(rng.pick([2, 3, 4])):
                for _try in range(20):
                    sub = _gen(rng.pick(["coupling", "autoreg", "linear", "simple", "nonlin", "nonlin"]), rng, False, depth + 1)
                    sub = _force_2d(sub, F)
                    if sub is None:
                        continue
                    fd, od = domains(sub)
                    if fd == dom and od in ("real", "unit"):
                        parts.append(sub)
                        dom = od
                        break
            if not parts:
                parts = [_force_2d(_gen("linear", rng, False, depth + 1), F)]
            return {"family": fam, "variant": v, "F": F, "parts": parts}
        if v == "multiscale":
            d = rng.pick([2, 4])
            return {"family": fam, "variant": v, "F": 8 if d == 2 else 4, "dims": d, "hw": [2, 1], "net": _net(rng)}
        F = rng.pick([2, 3, 4])
        parts = []
        for _ in range(rng.pick([2, 3, 3])):
            k = rng.pick(["perm", "lu", "affine_coupling", "maf", "actnorm", "batchnorm", "prq", "leaky", "squash"])
            parts.append(k)
        return {"family": fam, "variant": v, "F": F, "parts": parts, "net": _net(rng)}
    if fam == "dist":
        v = rng.pick(DISTS)
        return {"family": fam, "variant": v, "F": rng.pick([1, 2, 3]), "ctx": 2, "encoder": rng.chance(0.6), "mlp": rng.chance(0.4),
                "components": rng.pick([1, 2]), "hidden": 6, "random_mask": rng.chance(0.3), "shape2": rng.chance(0.2)}
    if fam == "flow":
        v = rng.pick(FLOWS)
        s = {"family": fam, "variant": v, "F": rng.pick([2, 3, 4]), "hidden": rng.pick([4, 8]), "layers": rng.pick([1, 2]),
             "blocks": 1, "bn_within": rng.chance(0.3), "bn_between": rng.chance(0.4), "dropout": rng.pick([0.0, 0.0, 0.3]),
             "random_masks": False, "random_perm": rng.chance(0.5), "residual": rng.chance(0.5),
             "volume_preserving": rng.chance(0.3)}
        if not s["residual"]:
            s["random_masks"] = rng.chance(0.6)
        if v == "Flow":
            s.update(ctx=rng.pick([0, 2]), embed=rng.chance(0.5), mlp=rng.chance(0.4), base=rng.pick(["normal", "condnormal", "normal"]),
                     parts=[rng.pick(["perm", "lu", "affine_coupling", "maf", "actnorm", "prq", "svd", "squash"]) for _ in range(rng.pick([1, 2, 3]))],
                     net=_net(rng))
            if s["base"] == "condnormal" and not s["ctx"]:
                s["ctx"] = 2
        return s
    raise HarnessError(fam)


def _force_2d(sub, F):
    """Make a generated sub-spec a 2-D, context-free transform on F features (or None if impossible)."""
    fam, v = sub["family"], sub.get("variant")
    if fam == "coupling":
        if F < 2:
            return None
        sub.update(F=F, dims=2, ctx=0)
        sub.pop("hw", None)
        return sub
    if fam == "autoreg":
        sub.update(F=F, ctx=0)
        return sub
    if fam == "linear":
        if v == "Conv":
            sub["variant"] = "LU"
        sub["F"] = F
        sub["K"] = 2 if sub["variant"] == "SVD" else min(sub.get("K", 2), 2 * F - 1 if sub.get("K", 2) % 2 else 2 * F)
        return sub
    if fam == "nonlin":
        if v == "GLU":
            return None
        sub.update(F=F, dims=2)
        return sub
    if fam == "simple":
        if v in ("Squeeze", "ActNorm4"):
            return None
        sub["F"] = F
        return sub
    return None


def domains(spec):
    """(input domain of forward, output domain of forward) of a transform spec, without building it."""
    fam, v = spec["family"], spec.get("variant")
    if fam == "coupling":
        d = "unit" if (v in ("plinear", "pquadratic", "pcubic", "prq") and not spec.get("tails")) else "real"
        return d, d
    if fam == "autoreg":
        if v in ("plinear", "pcubic"):
            return "unit", "unit"
        if v in ("pquadratic", "prq") and not spec.get("tails"):
            return "unit", "unit"
        return "real", "real"
    if fam == "nonlin":
        if v in ("Sigmoid", "SigmoidLearned", "CauchyCDF"):
            return "real", "unit"
        if v in ("Logit", "CauchyCDFInverse"):
            return "unit", "real"
        if v == "Tanh":
            return "real", "tanh"
        if v == "Exp":
            return "real", "pos"
        if v in ("PLCDF", "PQCDF", "PCCDF", "PRQCDF"):
            d = "real" if spec.get("tails") else "unit"
            return d, d
        return "real", "real"
    return "real", "real"


def without_dropout(spec):
    """The same spec with every dropout probability set to zero (recursively)."""
    if isinstance(spec, dict):
        return {k: (0.0 if k == "dropout" else without_dropout(v)) for k, v in spec.items()}
    if isinstance(spec, list):
        return [without_dropout(v) for v in spec]
    return spec


def label(spec):
    f = spec["family"]
    v = spec.get("variant", "")
    if f == "container" and v == "inverse":
        return "inverse(" + label(spec["inner"]) + ")"
    return "%s:%s" % (f, v)


# ---------------------------------------------------------------------------
# builders
# ---------------------------------------------------------------------------

def build(spec, seed):
    """Construct the model of `spec` under global torch seed `seed`."""
    core.boot()
    core.seed_global(seed)
    e = _build(spec)
    mag = float(spec.get("perturb", 0.0) or 0.0)
    if mag:
        torch = core.boot()
        with torch.no_grad():
            for name, p in sorted(e.obj.named_parameters()):
                if p.is_floating_point():
                    p.add_(mag * torch.randn(p.shape, dtype=p.dtype))
    return e


def _mask(kind, F):
    torch = core.boot()
    from nflows.utils import torchutils as tu

    if kind == "alt":
        return tu.create_alternating_binary_mask(F, even=True)
    if kind == "mid":
        return tu.create_mid_split_binary_mask(F)
    m = tu.create_random_binary_mask(F)
    if int(m.sum()) == 0 or int(m.sum()) == F:
        m = tu.create_alternating_binary_mask(F)
    return m


def _resnet_fn(net, ctx):
    from nflows.nn import nets

    def fn(i, o):
        return nets.ResidualNet(i, o, hidden_features=net["hidden"], context_features=(ctx or None), num_blocks=net["blocks"],
                                dropout_probability=net["dropout"], use_batch_norm=net["bn"])
    return fn


def _convnet_fn(net, ctx):
    from nflows.nn import nets

    def fn(i, o):
        return nets.ConvResidualNet(i, o, hidden_channels=net["hidden"], context_channels=(ctx or None), num_blocks=net["blocks"],
                                    dropout_probability=net["dropout"], use_batch_norm=net["bn"])
    return fn


def _build(spec):
    torch = core.boot()
    from nflows import transforms as T
    from nflows import distributions as D
    from nflows import flows as FL
    from nflows.transforms import nonlinearities as NL

    fam, v = spec["family"], spec.get("variant")
    if fam == "coupling":
        F, ctx, dims = spec["F"], spec["ctx"], spec["dims"]
        mask = _mask(spec["mask"], F)
        fn = _resnet_fn(spec["net"], ctx) if dims == 2 else _convnet_fn(spec["net"], ctx)
        tails, bins, un = spec["tails"], spec["bins"], spec["uncond"]
        fdom = "real"
        if v == "affine":
            t = T.AffineCouplingTransform(mask, fn)
        elif v == "additive":
            t = T.AdditiveCouplingTransform(mask, fn)
        elif v == "plinear":
            t = T.PiecewiseLinearCouplingTransform(mask, fn, num_bins=bins, tails=tails, tail_bound=2.0, apply_unconditional_transform=un)
            fdom = "real" if tails else "unit"
        elif v == "pquadratic":
            t = T.PiecewiseQuadraticCouplingTransform(mask, fn, num_bins=bins, tails=tails, tail_bound=2.0, apply_unconditional_transform=un)
            fdom = "real" if tails else "unit"
        elif v == "pcubic":
            t = T.PiecewiseCubicCouplingTransform(mask, fn, num_bins=bins, tails=tails, tail_bound=2.0, apply_unconditional_transform=un)
            fdom = "real" if tails else "unit"
        elif v == "prq":
            t = T.PiecewiseRationalQuadraticCouplingTransform(mask, fn, num_bins=bins, tails=tails, tail_bound=2.0, apply_unconditional_transform=un)
            fdom = "real" if tails else "unit"
        elif v == "umnn":
            t = T.UMNNCouplingTransform(mask, fn, integrand_net_layers=[6, 6], cond_size=3, nb_steps=5, solver="CCParallel",
                                        apply_unconditional_transform=un)
        else:
            raise HarnessError(v)
        shape = (F,) if dims == 2 else (F, spec["hw"][0], spec["hw"][1])
        cshape = None if not ctx else ((ctx,) if dims == 2 else (ctx, spec["hw"][0], spec["hw"][1]))
        return Entry(t, "transform", shape, cshape, fdom=fdom, idom=fdom, ctx_required=bool(ctx), slow=(v == "umnn"))
    if fam == "autoreg":
        F, ctx = spec["F"], spec["ctx"]
        kw = dict(features=F, hidden_features=spec["hidden"], context_features=(ctx or None), num_blocks=spec["blocks"],
                  use_residual_blocks=spec["residual"], random_mask=spec["random_mask"], dropout_probability=spec["dropout"],
                  use_batch_norm=spec["bn"])
        fdom = "real"
        if v == "affine":
            t = T.MaskedAffineAutoregressiveTransform(**kw)
        elif v == "plinear":
            t = T.MaskedPiecewiseLinearAutoregressiveTransform(num_bins=spec["bins"], **kw)
            fdom = "unit"
        elif v == "pquadratic":
            t = T.MaskedPiecewiseQuadraticAutoregressiveTransform(num_bins=spec["bins"], tails=spec["tails"], tail_bound=2.0, **kw)
            fdom = "real" if spec["tails"] else "unit"
        elif v == "pcubic":
            t = T.MaskedPiecewiseCubicAutoregressiveTransform(num_bins=spec["bins"], **kw)
            fdom = "unit"
        elif v == "prq":
            t = T.MaskedPiecewiseRationalQuadraticAutoregressiveTransform(num_bins=spec["bins"], tails=spec["tails"], tail_bound=2.0, **kw)
            fdom = "real" if spec["tails"] else "unit"
        elif v == "umnn":
            t = T.MaskedUMNNAutoregressiveTransform(integrand_net_layers=[6, 6], cond_size=3, nb_steps=5, solver="CCParallel", **kw)
        else:
            raise HarnessError(v)
        return Entry(t, "transform", (F,), (ctx,) if ctx else None, fdom=fdom, idom=fdom, ctx_required=bool(ctx), slow=(v == "umnn"))
    if fam == "linear":
        F = spec["F"]
        shape = (F,)
        if v == "LU":
            t = T.LULinear(F, identity_init=spec["identity_init"])
        elif v == "QR":
            t = T.QRLinear(F, num_householder=spec["K"])
        elif v == "SVD":
            t = T.SVDLinear(F, num_householder=spec["K"], identity_init=spec["identity_init"])
        elif v == "Naive":
            try:
                t = T.NaiveLinear(F)
            except Exception:   # noqa: BLE001 - torch.qr is gone from this torch (not C13/C15's business)
                t = T.NaiveLinear(F, orthogonal_initialization=False)
        elif v == "Conv":
            t = T.OneByOneConvolution(F, identity_init=spec["identity_init"])
            shape = (F, spec["hw"][0], spec["hw"][1])
        elif v == "Householder":
            t = T.HouseholderSequence(F, spec["K"])
        else:
            raise HarnessError(v)
        with torch.no_grad():
            for i, (n, p) in enumerate(sorted(t.named_parameters())):
                p.add_(0.3 * torch.randn(p.shape))
        return Entry(t, "transform", shape)
    if fam == "nonlin":
        F = spec["F"]
        shape = (F,) if spec["dims"] == 2 else (F, spec["hw"][0], spec["hw"][1])
        fdom, idom = "real", None
        ctx = None
        tails = spec["tails"]
        if v == "Exp":
            t, idom = NL.Exp(), "pos"
        elif v == "Tanh":
            t, idom = NL.Tanh(), "tanh"
        elif v == "LogTanh":
            t = NL.LogTanh(cut_point=1)
        elif v == "LeakyReLU":
            t = NL.LeakyReLU(negative_slope=0.1)
        elif v == "Sigmoid":
            t, idom = NL.Sigmoid(temperature=spec["temperature"]), "unit"
        elif v == "SigmoidLearned":
            t, idom = NL.Sigmoid(temperature=spec["temperature"], learn_temperature=True), "unit"
        elif v == "Logit":
            t, fdom = NL.Logit(temperature=spec["temperature"]), "unit"
        elif v == "GLU":
            t, ctx = NL.GatedLinearUnit(), (1,)
            shape = (1,)
        elif v == "CauchyCDF":
            t, idom = NL.CauchyCDF(), "unit"
        elif v == "CauchyCDFInverse":
            t, fdom = NL.CauchyCDFInverse(), "unit"
        elif v in ("PLCDF", "PQCDF", "PCCDF", "PRQCDF"):
            cls = {"PLCDF": NL.PiecewiseLinearCDF, "PQCDF": NL.PiecewiseQuadraticCDF, "PCCDF": NL.PiecewiseCubicCDF,
                   "PRQCDF": NL.PiecewiseRationalQuadraticCDF}[v]
            t = cls(list(shape), num_bins=spec["bins"], tails=tails, tail_bound=2.0)
            fdom = "real" if tails else "unit"
            idom = fdom
        elif v == "CompositeCDF":
            t = NL.CompositeCDFTransform(NL.Sigmoid(), NL.PiecewiseRationalQuadraticCDF(list(shape), num_bins=spec["bins"]))
        else:
            raise HarnessError(v)
        return Entry(t, "transform", shape, ctx, fdom=fdom, idom=idom, ctx_required=(v == "GLU"))
    if fam == "simple":
        F = spec["F"]
        shape = (F,)
        if v == "Identity":
            t = T.IdentityTransform()
        elif v == "PointwiseAffine":
            # constructor *arguments* are part of the configuration: derive them from the spec, not from the RNG
            t = T.PointwiseAffineTransform(shift=core.seeded(1000 + F, (F,)), scale=core.seeded(2000 + F, (F,), dist="uniform") + 0.5)
        elif v == "AffineTransform":
            t = T.AffineTransform(shift=0.3, scale=-1.5)
        elif v == "RandomPermutation":
            t = T.RandomPermutation(F)
        elif v == "ReversePermutation":
            t = T.ReversePermutation(F)
        elif v == "Permutation":
            t = T.Permutation(torch.tensor([(i * 2 + 1) % F if F % 2 else (F - 1 - i) for i in range(F)]) if F > 1 else torch.tensor([0]))
        elif v == "Squeeze":
            t, shape = T.SqueezeTransform(), (F, 2, 2)
            return Entry(t, "transform", shape, ishape=(4 * F, 1, 1))
        elif v == "ActNorm":
            t = T.ActNorm(F)
        elif v == "ActNorm4":
            t, shape = T.ActNorm(F), (F, spec["hw"][0], spec["hw"][1])
        elif v == "BatchNorm":
            t = T.BatchNorm(F, momentum=spec["momentum"])
        else:
            raise HarnessError(v)
        return Entry(t, "transform", shape)
    if fam == "container":
        if v == "inverse":
            inner = _build(spec["inner"])
            # forward of the wrapper is the inner inverse and vice versa: the domains swap
            return Entry(T.InverseTransform(inner.obj), "transform", inner.ishape, inner.ctx, fdom=inner.idom or "real",
                         idom=inner.fdom, ctx_required=inner.ctx_required, slow=inner.slow, ishape=inner.shape)
        if v == "multiscale":
            F = spec["F"]
            if spec["dims"] == 4:
                h, w_ = spec["hw"]
                ms = T.MultiscaleCompositeTransform(num_transforms=2, split_dim=1)
                fn = _convnet_fn(spec["net"], 0)
                nxt = ms.add_transform(T.CompositeTransform([T.ActNorm(F), T.OneByOneConvolution(F),
                                                              T.AffineCouplingTransform(_mask("alt", F), fn)]), (F, h, w_))
                ms.add_transform(T.CompositeTransform([T.ActNorm(nxt[0]), T.OneByOneConvolution(nxt[0])]), nxt)
                return Entry(ms, "transform", (F, h, w_), ishape=(F * h * w_,))
            ms = T.MultiscaleCompositeTransform(num_transforms=3, split_dim=1)
            fn = _resnet_fn(spec["net"], 0)
            s1 = ms.add_transform(T.AffineCouplingTransform(_mask("alt", F), fn), (F,))
            s2 = ms.add_transform(T.CompositeTransform([T.RandomPermutation(s1[0]), T.LULinear(s1[0], identity_init=False)]), s1)
            ms.add_transform(T.PointwiseAffineTransform(shift=0.1, scale=1.5), s2)
            return Entry(ms, "transform", (F,))
        F = spec["F"]
        if v == "chain":
            built = [_build(sub) for sub in spec["parts"]]
            return Entry(T.CompositeTransform([b.obj for b in built]), "transform", (F,), fdom=built[0].fdom,
                         idom=domains(spec["parts"][-1])[1], slow=any(b.slow for b in built))
        parts = [_part(k, F, spec["net"]) for k in spec["parts"]]
        return Entry(T.CompositeTransform(parts), "transform", (F,))
    if fam == "dist":
        F = spec["F"]
        shape = (F,) if not spec.get("shape2") else (F, 2)
        import numpy as np

        n = int(np.prod(shape))
        if v == "StandardNormal":
            return Entry(D.StandardNormal(list(shape)), "dist", shape, sample=True)
        if v == "ConditionalDiagonalNormal":
            enc = _encoder(spec, spec["ctx"], 2 * n) if spec["encoder"] else None
            c = (spec["ctx"],) if spec["encoder"] else (2 * n,)
            return Entry(D.ConditionalDiagonalNormal(list(shape), context_encoder=enc), "dist", shape, c, sample=True, ctx_required=True)
        if v == "DiagonalNormal":
            d = D.DiagonalNormal(list((n,)))
            with torch.no_grad():
                for i, (_, p) in enumerate(sorted(d.named_parameters())):
                    p.add_((1.0 if i == 0 else 0.3) * torch.randn(p.shape))
            return Entry(d, "dist", (n,), sample=False)
        if v == "Bernoulli":
            enc = _encoder(spec, spec["ctx"], n) if spec["encoder"] else None
            c = (spec["ctx"],) if spec["encoder"] else (n,)
            return Entry(D.ConditionalIndependentBernoulli(list(shape), context_encoder=enc), "dist", shape, c, fdom="binary",
                         sample=True, ctx_required=True)
        if v == "MADEMoG":
            d = D.MADEMoG(features=F, hidden_features=spec["hidden"], context_features=spec["ctx"], num_blocks=1,
                          num_mixture_components=spec["components"], use_residual_blocks=not spec["random_mask"],
                          random_mask=spec["random_mask"], custom_initialization=True)
            return Entry(d, "dist", (F,), (spec["ctx"],), sample=True, ctx_required=True)
        raise HarnessError(v)
    if fam == "flow":
        F = spec["F"]
        if v == "MAF":
            f = FL.MaskedAutoregressiveFlow(features=F, hidden_features=spec["hidden"], num_layers=spec["layers"],
                                            num_blocks_per_layer=spec["blocks"], use_residual_blocks=spec["residual"],
                                            use_random_masks=spec["random_masks"], use_random_permutations=spec["random_perm"],
                                            dropout_probability=spec["dropout"], batch_norm_within_layers=spec["bn_within"],
                                            batch_norm_between_layers=spec["bn_between"])
            return Entry(f, "flow", (F,), sample=True)
        if v == "RealNVP":
            f = FL.SimpleRealNVP(features=max(F, 2), hidden_features=spec["hidden"], num_layers=spec["layers"],
                                 num_blocks_per_layer=spec["blocks"], use_volume_preserving=spec["volume_preserving"],
                                 dropout_probability=spec["dropout"], batch_norm_within_layers=spec["bn_within"],
                                 batch_norm_between_layers=spec["bn_between"])
            return Entry(f, "flow", (max(F, 2),), sample=True)
        if v == "Flow":
            ctx = spec["ctx"]
            emb_out = 3 if (ctx and spec["embed"]) else ctx
            parts = [_part(k, F, spec["net"], emb_out) for k in spec["parts"]]
            if spec["base"] == "condnormal":
                base = D.ConditionalDiagonalNormal([F], context_encoder=torch.nn.Linear(emb_out, 2 * F))
            else:
                base = D.StandardNormal([F])
            emb = _encoder(spec, ctx, emb_out) if (ctx and spec["embed"]) else None
            f = FL.Flow(T.CompositeTransform(parts), base, embedding_net=emb)
            return Entry(f, "flow", (F,), (ctx,) if ctx else None, sample=True, ctx_required=bool(ctx))
        raise HarnessError(v)
    raise HarnessError(fam)


def _encoder(spec, n_in, n_out):
    torch = core.boot()
    if spec.get("mlp"):
        from nflows.nn import nets

        return nets.MLP([n_in], [n_out], hidden_sizes=[5, 4])
    return torch.nn.Linear(n_in, n_out)


def _part(kind, F, net, ctx=0):
    torch = core.boot()
    from nflows import transforms as T

    if kind == "perm":
        return T.RandomPermutation(F)
    if kind == "lu":
        return T.LULinear(F, identity_init=False)
    if kind == "svd":
        return T.SVDLinear(F, num_householder=2, identity_init=False)
    if kind == "affine_coupling":
        return T.AffineCouplingTransform(_mask("alt", F), _resnet_fn(net, ctx))
    if kind == "maf":
        return T.MaskedAffineAutoregressiveTransform(F, hidden_features=net["hidden"], context_features=(ctx or None), num_blocks=1,
                                                     use_residual_blocks=False, random_mask=True, use_batch_norm=net["bn"],
                                                     dropout_probability=net["dropout"])
    if kind == "actnorm":
        return T.ActNorm(F)
    if kind == "batchnorm":
        return T.BatchNorm(F)
    if kind == "prq":
        return T.PiecewiseRationalQuadraticCouplingTransform(_mask("mid", F), _resnet_fn(net, ctx), num_bins=3, tails="linear", tail_bound=2.0)
    if kind == "leaky":
        return T.LeakyReLU(negative_slope=0.2)
    if kind == "squash":
        # real -> (0,1) with a LEARNED temperature -> real again through a fixed-temperature logit
        from nflows.transforms import nonlinearities as NL

        return T.CompositeTransform([NL.Sigmoid(temperature=1.5, learn_temperature=True), NL.Logit(temperature=1.0)])
    raise HarnessError(kind)


# ---------------------------------------------------------------------------
# inputs
# ---------------------------------------------------------------------------

def make_input(entry, seed, rows, dtype=None, domain=None, scale=1.0, inverse=False):
    torch = core.boot()
    dom = domain or (entry.fdom if not inverse else (entry.idom or "real"))
    shape = (rows,) + (entry.ishape if inverse else entry.shape)
    if dom == "unit":
        x = core.seeded(seed, shape, dtype=dtype, dist="uniform") * 0.98 + 0.01
    elif dom == "tanh":
        x = core.seeded(seed, shape, dtype=dtype, dist="uniform") * 1.9 - 0.95
    elif dom == "pos":
        x = core.seeded(seed, shape, dtype=dtype, dist="uniform") * 3.0 + 0.05
    elif dom == "binary":
        x = (core.seeded(seed, shape, dtype=dtype, dist="uniform") > 0.5).to(dtype or torch.float32)
    else:
        x = core.seeded(seed, shape, dtype=dtype, scale=scale)
    return x


def make_context(entry, seed, rows, dtype=None):
    if entry.ctx is None:
        return None
    return core.seeded(seed + 17, (rows,) + entry.ctx, dtype=dtype)
