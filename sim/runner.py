"""Fan-out over worker interpreters, merging, self-tests, evidence, verdict.

Exit codes: 0 property held on everything explored (KNOWN-FINDING lines allowed);
1 with `VIOLATION property=<id> replay=<path>`; 2 with `HARNESS-ERROR ...` for
failures of the machinery itself (never disguised as 0 or 1).
"""
import argparse
import faulthandler
import hashlib
import json
import os
import subprocess
import tempfile
import sys
import time

from . import core, prng

ROOT = os.path.dirname(os.path.dirname(os.path.abspath(__file__)))
PY = sys.executable

# runs per tier (fixed, so that a VERIF_SEED explores the same seeds anywhere)
BUDGET = {
    # thorough: longer histories (to 120 ops), instruction-level interrupts, the real torch optimiser, 5 % real-
    # subprocess restarts, 2000 re-executed runs for the determinism self-test, then the mutant suite:
    # about 30-40 min per property on 16 cores (VERIF_RUNS overrides the run count for soaks)
    "C10": {"quick": 54000, "thorough": 240000},
    "C13": {"quick": 28000, "thorough": 120000},
    "C14": {"quick": 48000, "thorough": 240000},
    "C15": {"quick": 28000, "thorough": 120000},
}
SELFTEST = {"quick": 64, "thorough": 2000}
SHRINK_PER_WORKER = 4
MAX_REPORTED = 12


def worlds():
    from checks import REGISTRY

    return REGISTRY


# --------------------------------------------------------------------------
# worker
# --------------------------------------------------------------------------

def _private_stdout():
    """The result channel must not be shared with the code under test: keep the original stdout for the protocol
    and point fd 1 (and sys.stdout) at stderr, so that a print() inside the library cannot corrupt it."""
    proto = os.fdopen(os.dup(1), "w")
    os.dup2(2, 1)
    sys.stdout = sys.stderr
    return proto


def worker_main():
    proto = _private_stdout()
    job = json.load(sys.stdin)
    faulthandler.enable()
    faulthandler.dump_traceback_later(job.get("wall_cap", 3000), exit=True)
    core.boot()
    wc = worlds()[job["prop"]]
    agg = new_agg()
    shr = 0
    t0 = time.perf_counter()
    for idx in job["indices"]:
        seed = prng.run_seed(job["verif_seed"], job["prop"], idx)
        try:
            res = core.run_generated(wc, seed, job["tier"])
        except core.ConfigRejected as e:
            agg["configs_rejected"] += 1
            agg["configs_rejected_example"] = "run index %d: %s" % (idx, e)
            continue
        except core.HarnessError as e:
            agg["harness_errors"].append({"idx": idx, "seed": seed, "error": repr(e)})
            continue
        except Exception as e:   # noqa: BLE001 - a crash of the harness, not a verdict
            import traceback

            agg["harness_errors"].append({"idx": idx, "seed": seed, "error": traceback.format_exc()[-1500:]})
            continue
        fold(agg, idx, res, job.get("keep_digests", True))
        if res["violation"] is not None:
            entry = {"idx": idx, "seed": seed, "original": slim(res), "min": None}
            if shr < job.get("shrink_cap", SHRINK_PER_WORKER):
                shr += 1
                m = core.shrink(wc, res["cfg"], res["ops"], res["violation"])
                if m is not None:
                    entry["min"] = slim(m)
            agg["violations"].append(entry)
            if len(agg["violations"]) >= job.get("stop_after", 40):
                agg["stopped_early"] = True
                break
    agg["wall"] = time.perf_counter() - t0
    faulthandler.cancel_dump_traceback_later()
    try:
        from . import restart_server

        restart_server.CLIENT.close()
    except Exception:   # noqa: BLE001
        pass
    for k in ("states", "transitions", "seqs", "seqs_nontrivial"):
        agg[k] = sorted(agg[k])
    proto.write(json.dumps(agg))
    proto.flush()


def slim(res):
    return {k: res[k] for k in ("seed", "cfg", "ops", "violation", "digest", "steps")}


def new_agg():
    return {"runs": 0, "steps": 0, "nontrivial": 0, "comparisons": 0, "max_ratio": 0.0,
            "probes": {}, "faults": {}, "faults_missed": {}, "states": set(), "transitions": set(),
            "seqs": set(), "seqs_nontrivial": set(), "digests": {}, "violations": [], "samples": [],
            "harness_errors": [], "stopped_early": False, "run_wall": 0.0, "by_class": {}, "configs_rejected": 0,
            "configs_rejected_example": ""}


def fold(agg, idx, res, keep_digests):
    agg["runs"] += 1
    agg["steps"] += res["steps"]
    agg["comparisons"] += res["comparisons"]
    agg["max_ratio"] = max(agg["max_ratio"], res["max_ratio"])
    agg["run_wall"] += res["wall"]
    for name in ("probes", "faults", "faults_missed"):
        for k, v in res[name].items():
            agg[name][k] = agg[name].get(k, 0) + v
    agg["states"].update(res["states"])
    agg["transitions"].update(res["transitions"])
    label = res["cfg"].get("label") or res["cfg"].get("cls") or res["cfg"].get("model") or "?"
    agg["by_class"][label] = agg["by_class"].get(label, 0) + 1
    sig = hashlib.sha256(json.dumps([label, [o.get("op") for o in res["ops"]]]).encode()).hexdigest()[:12]
    agg["seqs"].add(sig)
    if res["nontrivial"]:
        agg["nontrivial"] += 1
        agg["seqs_nontrivial"].add(sig)
        if len(agg["samples"]) < 2:
            agg["samples"].append({"run_index": idx, "cfg": res["cfg"], "ops": res["ops"]})
    if keep_digests:
        agg["digests"][str(idx)] = res["digest"][:20]


def merge(parts):
    tot = new_agg()
    tot["wall"] = 0.0
    for a in parts:
        for k in ("runs", "steps", "nontrivial", "comparisons", "run_wall", "configs_rejected"):
            tot[k] += a[k]
        tot["configs_rejected_example"] = tot["configs_rejected_example"] or a.get("configs_rejected_example", "")
        tot["max_ratio"] = max(tot["max_ratio"], a["max_ratio"])
        tot["wall"] = max(tot["wall"], a.get("wall", 0.0))
        for name in ("probes", "faults", "faults_missed", "by_class"):
            for k, v in a[name].items():
                tot[name][k] = tot[name].get(k, 0) + v
        for name in ("states", "transitions", "seqs", "seqs_nontrivial"):
            tot[name].update(a[name])
        tot["digests"].update(a["digests"])
        tot["violations"].extend(a["violations"])
        tot["samples"].extend(a["samples"])
        tot["harness_errors"].extend(a["harness_errors"])
        tot["stopped_early"] = tot["stopped_early"] or a["stopped_early"]
    tot["violations"].sort(key=lambda v: v["idx"])
    tot["samples"].sort(key=lambda s: s["run_index"])
    return tot


# --------------------------------------------------------------------------
# parent
# --------------------------------------------------------------------------

def launch(job, hashseed):
    env = dict(os.environ)
    env["PYTHONHASHSEED"] = str(hashseed)
    env["VERIF_REPO"] = core.REPO          # absolute: workers run with cwd=/verif
    env["OMP_NUM_THREADS"] = "1"
    env["MKL_NUM_THREADS"] = "1"
    env["PYTHONDONTWRITEBYTECODE"] = "1"
    errf = tempfile.TemporaryFile()
    p = subprocess.Popen([PY, os.path.join(ROOT, "check"), "--worker"], stdin=subprocess.PIPE,
                         stdout=subprocess.PIPE, stderr=errf, env=env, cwd=ROOT)
    p.errf = errf
    p.stdin.write(json.dumps(job).encode())
    p.stdin.close()
    return p


def collect(procs, cap):
    outs = []
    deadline = time.time() + cap
    for p in procs:
        try:
            left = max(1.0, deadline - time.time())
            out = p.stdout.read() if left > 0 else b""
            p.wait(timeout=left)
            p.errf.seek(0)
            err = p.errf.read()
            p.errf.close()
        except subprocess.TimeoutExpired:
            for q in procs:
                q.kill()
            raise core.HarnessError("worker exceeded wall cap of %ds" % cap)
        if p.returncode != 0:
            raise core.HarnessError("worker exit %s: %s" % (p.returncode, err.decode(errors="replace")[-2000:]))
        try:
            outs.append(json.loads(out))
        except ValueError:
            raise core.HarnessError("worker produced unparsable output: %r ... stderr: %s" % (
                out[:200], err.decode(errors="replace")[-1500:]))
    return outs


def fan_out(prop, tier, verif_seed, indices, nworkers, hash_base, cap, **extra):
    chunks = [indices[w::nworkers] for w in range(nworkers)]
    procs = []
    for w, ch in enumerate(chunks):
        if not ch:
            continue
        job = {"prop": prop, "tier": tier, "verif_seed": verif_seed, "indices": ch, "wall_cap": cap, **extra}
        procs.append(launch(job, hash_base + w))
    return collect(procs, cap + 30)


def load_known():
    path = os.environ.get("VERIF_KNOWN_FINDINGS") or os.path.join(ROOT, "known_findings.json")   # env override: self-test only
    if not os.path.exists(path):
        return []
    with open(path) as f:
        return json.load(f).get("findings", [])


def signature(v):
    """What identifies a finding: violation kind, the op kinds of the minimised
    history and the model class."""
    r = v["min"] or v["original"]
    cfg = r["cfg"]
    return {"kind": r["violation"]["kind"], "at": r["violation"]["op"],
            "ops": sorted(set(o.get("op") for o in r["ops"])),
            "label": cfg.get("label") or cfg.get("cls") or cfg.get("model")}


def matches_known(sig, prop, known):
    for k in known:
        if k.get("property") != prop or k.get("status") != "known":
            continue
        m = k.get("match", {})
        if m.get("kind") and m["kind"] != sig["kind"]:
            continue
        if m.get("at") and m["at"] != sig["at"]:
            continue
        if m.get("ops_all") and not set(m["ops_all"]).issubset(sig["ops"]):
            continue
        if m.get("ops_only") and not set(sig["ops"]).issubset(m["ops_only"]):
            continue
        if m.get("labels") and sig["label"] not in m["labels"]:
            continue
        return k
    return None


def run_check(prop, tier, verif_seed, nruns=None, nworkers=None, write_evidence=True, mutants=False):
    t0 = time.time()
    nworkers = nworkers or min(16, os.cpu_count() or 1)
    n = nruns or int(os.environ.get("VERIF_RUNS") or 0) or BUDGET[prop][tier]
    if n < 1 or (nworkers is not None and nworkers < 1):
        raise core.HarnessError("nothing to explore: runs=%s workers=%s" % (n, nworkers))
    cap = 3600 if tier == "quick" else 8 * 3600
    indices = list(range(n))
    print("[%s] tier=%s VERIF_SEED=%d runs=%d workers=%d repo=%s" % (prop, tier, verif_seed, n, nworkers, core.REPO))
    sys.stdout.flush()
    parts = fan_out(prop, tier, verif_seed, indices, nworkers, hash_base=100, cap=cap)
    tot = merge(parts)
    # ---------------- determinism self-test: other interpreter, hash seed, worker split
    nself = min(SELFTEST[tier], n)
    self_idx = indices[:nself] + [v["idx"] for v in tot["violations"] if v["idx"] >= nself]
    self_parts = fan_out(prop, tier, verif_seed, self_idx, max(1, min(5, nworkers // 3 or 1)), hash_base=7000,
                         cap=cap, shrink_cap=0, stop_after=10 ** 9)
    st = merge(self_parts)
    mism = [i for i in map(str, self_idx) if i in tot["digests"] and st["digests"].get(i) != tot["digests"][i]]
    if mism:
        print("HARNESS-ERROR property=%s nondeterminism: %d of %d re-executed runs differ (e.g. index %s)" % (
            prop, len(mism), len(self_idx), mism[0]))
        return 2
    if tot["configs_rejected"]:
        print("  note: %d of %d generated configurations were refused by a constructor of the code under test (e.g. %s)" % (
            tot["configs_rejected"], n, tot["configs_rejected_example"]))
        if tot["configs_rejected"] > 0.1 * n:
            print("HARNESS-ERROR property=%s more than 10%% of the configurations cannot be constructed" % prop)
            return 2
    if tot["harness_errors"]:
        e = tot["harness_errors"][0]
        print("HARNESS-ERROR property=%s %d runs crashed in the harness; first: index %s: %s" % (
            prop, len(tot["harness_errors"]), e["idx"], e["error"]))
        return 2
    # ---------------- violations -> replay files, verified in a fresh interpreter
    known = load_known()
    reported, known_hits, seen, unstable = [], {}, set(), []
    os.makedirs(os.path.join(ROOT, "replays"), exist_ok=True)
    for v in tot["violations"]:
        sig = signature(v)
        key = json.dumps(sig, sort_keys=True)
        k = matches_known(sig, prop, known)
        if k is not None:
            known_hits.setdefault(k["id"], [k, 0])[1] += 1
            continue
        if key in seen or len(reported) >= MAX_REPORTED:
            continue
        seen.add(key)
        r = v["min"] or v["original"]
        path = os.path.join(ROOT, "replays", "%s-%s-%d.json" % (prop, r["violation"]["kind"], v["seed"]))
        core.write_replay(path, prop, r, v["seed"], verif_seed, tier)
        ok, info = verify_replay(path)
        if not ok:
            # a violation that does not replay exactly is not reported as a verdict; if nothing else reproduces the
            # run ends as a harness error below
            unstable.append((path, info))
            continue
        reported.append((path, r, sig))
    for path, info in unstable[:3]:
        print("  note: replay %s did not reproduce exactly in a fresh interpreter (%s)" % (path, str(info)[:200]))
    if unstable and not reported:
        print("HARNESS-ERROR property=%s %d violation(s) were observed but none replays exactly in a fresh interpreter" % (prop, len(unstable)))
        return 2
    for kid, (k, cnt) in sorted(known_hits.items()):
        print("KNOWN-FINDING: property=%s %s (%s; seen %d times in this run)" % (prop, k.get("what", kid), kid, cnt))
    for path, r, sig in reported:
        print("  violation kind=%s at op=%s step=%d label=%s minimised history=%s\n    detail: %s" % (
            r["violation"]["kind"], r["violation"]["op"], r["violation"]["step"], sig["label"],
            [o.get("op") for o in r["ops"]], r["violation"]["detail"]))
        print("VIOLATION property=%s replay=%s" % (prop, path))
    wall = time.time() - t0
    # ---------------- reach report
    zero = [p for p in worlds()[prop].EXPECTED_PROBES if tot["probes"].get(p, 0) == 0] if hasattr(worlds()[prop], "EXPECTED_PROBES") else []
    if zero:
        print("  note: probes at zero in this run (workload mix, not a verdict): %s" % ", ".join(zero))
    rate = tot["runs"] / max(wall, 1e-9) * 3600.0
    print("[%s] runs=%d steps=%d nontrivial=%d distinct_nontrivial=%d states=%d transitions=%d comparisons=%d max_ratio=%.3g"
          " violations=%d known=%d wall=%.1fs (%.2fM runs/h)" % (
              prop, tot["runs"], tot["steps"], tot["nontrivial"], len(tot["seqs_nontrivial"]), len(tot["states"]),
              len(tot["transitions"]), tot["comparisons"], tot["max_ratio"], len(tot["violations"]),
              sum(c for _, c in known_hits.values()), wall, rate / 1e6))
    print("  faults fired: %s | scheduled but not fired: %s" % (json.dumps(tot["faults"], sort_keys=True),
                                                                 json.dumps(tot["faults_missed"], sort_keys=True)))
    kill = None
    if mutants and not reported and os.path.exists(os.path.join(ROOT, "mutants", prop + ".json")):
        # sensitivity self-test (thorough tier): the mutant suite against scratch copies, quick budget each.
        # Reported in the evidence; a missed mutant is a note, never a verdict about /repo.
        sys.path.insert(0, ROOT)
        import tools_mutants

        print("[%s] sensitivity suite (scratch copies of %s/nflows, VERIF_REPO) ..." % (prop, core.REPO))
        sys.stdout.flush()
        kill = tools_mutants.run_suite(prop, runs=max(2000, BUDGET[prop]["quick"] // 3), verbose=False)
        missed = [k for k, v in kill.items() if not v["as_expected"]]
        print("  mutants: %d, as expected: %d%s" % (len(kill), len(kill) - len(missed), (", NOT as expected: %s" % missed) if missed else ""))
    if write_evidence:
        write_evidence_file(prop, tier, verif_seed, tot, time.time() - t0, n, nworkers, len(self_idx), len(mism), reported, known_hits, kill)
    return 1 if reported else 0


def verify_replay(path):
    env = dict(os.environ)
    env["PYTHONHASHSEED"] = "4242"
    p = subprocess.run([PY, os.path.join(ROOT, "check"), "--replay", path, "--json"], capture_output=True,
                       env=env, cwd=ROOT, timeout=900)
    try:
        info = json.loads(p.stdout.decode().strip().splitlines()[-1])
    except Exception:   # noqa: BLE001
        return False, (p.stdout.decode()[-500:] + p.stderr.decode()[-800:])
    return bool(info.get("reproduced") and info.get("digest_equal")), info


def write_evidence_file(prop, tier, verif_seed, tot, wall, n, nworkers, self_pairs, self_mism, reported, known_hits, kill=None):
    wc = worlds()[prop]
    ev = {
        "property_id": prop,
        "tier": tier,
        "seed": int(verif_seed),
        "level": "exploration",
        "wall_s": round(wall, 2),
        "violations": len(reported),
        "coverage": {
            "evaluations": tot["runs"],
            "distinct_nontrivial": len(tot["seqs_nontrivial"]),
            "rule": wc.RULE,
            "samples": tot["samples"][:3],
            "simulated_runs": tot["runs"],
            "sim_steps": tot["steps"],
            "simulated_time": "%d logical steps (the step counter is the only clock; nflows reads none)" % tot["steps"],
            "runs_per_hour": int(tot["runs"] / max(wall, 1e-9) * 3600),
            "seeds_per_hour": int(tot["runs"] / max(wall, 1e-9) * 3600),
            "run_index_range": [0, n - 1],
            "workers": nworkers,
            "nontrivial_runs": tot["nontrivial"],
            "distinct_op_sequences": len(tot["seqs"]),
            "abstract_states": len(tot["states"]),
            "abstract_transitions": len(tot["transitions"]),
            "oracle_comparisons": tot["comparisons"],
            "max_ratio_to_tolerance": tot["max_ratio"],
            "faults_fired": tot["faults"],
            "faults_scheduled_not_fired": tot["faults_missed"],
            "probes": tot["probes"],
            "runs_by_model": tot["by_class"],
            "configurations_refused_by_constructors": tot["configs_rejected"],
            "determinism_selftest": {"pairs": self_pairs, "mismatches": self_mism,
                                     "how": "re-executed in other interpreters with another PYTHONHASHSEED and worker split; SHA-256 of the event log (ops, abstract states, raw result bytes) compared"},
            "known_findings_seen": {k: c for k, (_, c) in known_hits.items()},
            "replays": [p for p, _, _ in reported],
            "real_components": wc.REAL,
            "stub_components": wc.STUB,
            "repo": core.REPO,
            **({"mutants": kill} if kill is not None else {}),
        },
        "assumptions": wc.ASSUME,
    }
    os.makedirs(os.path.join(ROOT, "evidence"), exist_ok=True)
    with open(os.path.join(ROOT, "evidence", "%s.json" % prop), "w") as f:
        json.dump(ev, f, indent=1, sort_keys=True)


def do_replay(path, as_json):
    doc, res, same = core.replay_file(path, worlds())
    dig = res["digest"] == doc.get("digest")
    if as_json:
        print(json.dumps({"reproduced": same, "digest_equal": dig, "violation": res["violation"]}))
    else:
        if same:
            print("replayed %s: reproduced %s at step %d (%s); event-log digest %s" % (
                path, res["violation"]["kind"], res["violation"]["step"], res["violation"]["detail"],
                "identical" if dig else "DIFFERS"))
            print("VIOLATION property=%s replay=%s" % (doc["property"], path))
        else:
            print("replayed %s: expected %s, got %s" % (path, doc.get("expect"), res["violation"]))
    return 1 if same else 0


def do_setup():
    core.boot()
    import torch

    ws = worlds()
    for prop, wc in sorted(ws.items()):
        for i in range(3):
            core.run_generated(wc, prng.run_seed(0, prop, i), "quick")
    print("setup ok: torch %s, nflows from %s, worlds: %s" % (torch.__version__, core.REPO, ",".join(sorted(ws))))
    return 0


def main(argv=None):
    ap = argparse.ArgumentParser(prog="check")
    ap.add_argument("prop", nargs="?")
    ap.add_argument("--tier", default=os.environ.get("VERIF_TIER", "quick"), choices=["quick", "thorough"])
    ap.add_argument("--replay")
    ap.add_argument("--json", action="store_true")
    ap.add_argument("--setup", action="store_true")
    ap.add_argument("--worker", action="store_true")
    ap.add_argument("--restart-server", action="store_true")
    ap.add_argument("--runs", type=int)
    ap.add_argument("--workers", type=int)
    ap.add_argument("--no-evidence", action="store_true")
    ap.add_argument("--no-mutants", action="store_true", help="thorough tier: skip the sensitivity suite")
    a = ap.parse_args(argv)
    try:
        if a.restart_server:
            from . import restart_server

            restart_server.serve()
            return 0
        if a.worker:
            worker_main()
            return 0
        if a.setup:
            return do_setup()
        if a.replay:
            return do_replay(a.replay, a.json)
        if not a.prop:
            ap.error("property id required")
        raw = os.environ.get("VERIF_SEED", "0") or "0"
        try:
            seed = int(raw)
        except ValueError:
            seed = prng.derive("seed-text", raw) % (1 << 31)
        return run_check(a.prop, a.tier, seed, a.runs, a.workers, write_evidence=not a.no_evidence,
                         mutants=(a.tier == "thorough" and not a.no_mutants and not a.no_evidence))
    except core.HarnessError as e:
        print("HARNESS-ERROR %s" % (e,))
        return 2
    except SystemExit:
        raise
    except BaseException as e:   # noqa: BLE001 - an uncaught exception would exit 1, the VIOLATION code
        import traceback

        print("HARNESS-ERROR uncaught %s: %s" % (type(e).__name__, traceback.format_exc()[-1500:]))
        return 2
