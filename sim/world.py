"""Base class for per-property worlds: bookkeeping shared by all of them."""
import collections
import io

from . import core


class World:
    prop = "?"

    def __init__(self, cfg):
        self.cfg = cfg
        self.probes = collections.Counter()
        self.faults = collections.Counter()          # fault kinds that actually fired
        self.faults_missed = collections.Counter()   # scheduled but did not fire
        self.states = set()
        self.transitions = set()
        self.comparisons = 0
        self.max_ratio_at = ""
        self.max_ratio = 0.0   # worst observed |difference| / tolerance over passing comparisons
        self.storage = {}      # the simulated durable medium: name -> bytes

    # ---- to be provided by subclasses
    @classmethod
    def gen_config(cls, rng, tier):
        raise NotImplementedError

    def gen_op(self, streams):
        raise NotImplementedError

    def step(self, op, log):
        raise NotImplementedError

    def abstract(self):
        return ()

    def nontrivial(self):
        return False

    def finish(self, log):
        pass

    @classmethod
    def simplify_cfg(cls, cfg):
        return []

    @classmethod
    def simplify_op(cls, op):
        return []

    # ---- shared
    def note_transition(self, pre, opkind, post):
        self.states.add(pre)
        self.states.add(post)
        self.transitions.add((pre, opkind, post))

    def ratio(self, diff, bound, label=""):
        """Record head-room of a passing numeric comparison."""
        if bound > 0:
            r = diff / bound
            if r > self.max_ratio:
                self.max_ratio = r
                self.max_ratio_at = label

    def stats(self):
        return {
            "probes": dict(self.probes),
            "faults": dict(self.faults),
            "faults_missed": dict(self.faults_missed),
            "states": sorted(repr(s) for s in self.states),
            "transitions": sorted(repr(t) for t in self.transitions),
            "nontrivial": bool(self.nontrivial()),
            "comparisons": self.comparisons,
            "max_ratio": self.max_ratio,
            "max_ratio_at": self.max_ratio_at,
        }

    # ---- simulated storage: torch.save / torch.load through bytes
    def save_bytes(self, name, state_dict):
        torch = core.boot()
        buf = io.BytesIO()
        torch.save(state_dict, buf)
        self.storage[name] = buf.getvalue()

    def load_bytes(self, name):
        torch = core.boot()
        return torch.load(io.BytesIO(self.storage[name]), weights_only=False)   # our own bytes; extra state may hold numpy scalars etc.


def grad_ctx(mode):
    torch = core.boot()
    if mode == "no_grad":
        return torch.no_grad()
    if mode == "inference":
        return torch.inference_mode()
    return torch.enable_grad()
