"""A real process boundary for the crash+restart fault.

`check --restart-server` is a fresh interpreter (own PYTHONHASHSEED, own torch
RNG history, own memory layout) that reads one JSON job per line on stdin:

    {"spec": ..., "seed": int, "dtype64": bool, "ckpt": base64(torch.save bytes),
     "probes": [op, ...]}

builds the model of `spec` under `seed`, converts dtype, loads the checkpoint with
load_state_dict(strict=True), puts it in evaluation mode, runs every probe and
answers with one JSON line {"results": [[status, sha256-of-raw-bytes], ...]} or
{"error": "..."}.  Nothing of the originating process survives except the bytes.
"""
import base64
import hashlib
import io
import json
import sys


def probe(entry, root, op, dtype):
    from . import core, zoo

    fn = op["fn"]
    rows = int(op.get("rows", 2))
    ctx = zoo.make_context(entry, op["x"], rows, dtype=dtype)
    core.seed_global(op.get("rng", 1))
    if fn == "forward":
        return root(zoo.make_input(entry, op["x"], rows, dtype=dtype), ctx)
    if fn == "inverse":
        return root.inverse(zoo.make_input(entry, op["x"], rows, dtype=dtype, inverse=True), ctx)
    if fn == "log_prob":
        return root.log_prob(zoo.make_input(entry, op["x"], rows, dtype=dtype), ctx)
    if fn == "transform_to_noise":
        return root.transform_to_noise(zoo.make_input(entry, op["x"], rows, dtype=dtype), ctx)
    if fn == "sample":
        return root.sample(int(op.get("n", 2)), context=ctx)
    if fn == "sample_and_log_prob":
        return root.sample_and_log_prob(int(op.get("n", 2)), context=ctx)
    raise ValueError(fn)


def run_probes(entry, root, probes, dtype):
    from . import core

    torch = core.boot()
    out = []
    for op in probes:
        try:
            with torch.no_grad():
                res = probe(entry, root, op, dtype)
            outs = res if isinstance(res, tuple) else (res,)
            h = hashlib.sha256(b"".join(core.tbytes(o) for o in outs)).hexdigest()
            out.append(["ok", h])
        except Exception as ex:   # noqa: BLE001
            out.append(["raised", type(ex).__name__])
    return out


def serve():
    import os

    proto = os.fdopen(os.dup(1), "w")     # protocol channel; fd 1 goes to stderr so that library prints cannot corrupt it
    os.dup2(2, 1)
    sys.stdout = sys.stderr
    from . import core, zoo

    torch = core.boot()
    for line in sys.stdin:
        line = line.strip()
        if not line:
            continue
        try:
            job = json.loads(line)
            entry = zoo.build(job["spec"], int(job["seed"]))
            root = entry.obj
            dtype = torch.float64 if job.get("dtype64") else torch.float32
            if job.get("dtype64"):
                root.double()
            sd = torch.load(io.BytesIO(base64.b64decode(job["ckpt"])), weights_only=False)
            res = root.load_state_dict(sd, strict=True)
            if res.missing_keys or res.unexpected_keys:
                raise RuntimeError("missing %s unexpected %s" % (res.missing_keys, res.unexpected_keys))
            root.eval()
            ans = {"results": run_probes(entry, root, job["probes"], dtype)}
        except Exception as ex:   # noqa: BLE001
            ans = {"error": "%s: %s" % (type(ex).__name__, str(ex)[:300])}
        proto.write(json.dumps(ans) + "\n")
        proto.flush()


def core_error(msg):
    from .core import HarnessError

    return HarnessError(msg)


class Client:
    """Lazily started, one per worker interpreter."""

    def __init__(self):
        self.proc = None

    def ask(self, job):
        import os
        import subprocess

        if self.proc is None or self.proc.poll() is not None:
            root = os.path.dirname(os.path.dirname(os.path.abspath(__file__)))
            env = dict(os.environ, PYTHONHASHSEED="90210", OMP_NUM_THREADS="1", MKL_NUM_THREADS="1")
            self.proc = subprocess.Popen([sys.executable, os.path.join(root, "check"), "--restart-server"],
                                         stdin=subprocess.PIPE, stdout=subprocess.PIPE, stderr=subprocess.DEVNULL, env=env, cwd=root)
        import select

        self.proc.stdin.write((json.dumps(job) + "\n").encode())
        self.proc.stdin.flush()
        ready, _, _ = select.select([self.proc.stdout], [], [], 300)
        if not ready:
            self.proc.kill()
            raise core_error("restart server did not answer within 300 s")
        line = self.proc.stdout.readline()
        if not line:
            raise core_error("restart server died")
        return json.loads(line)

    def close(self):
        if self.proc is not None and self.proc.poll() is None:
            try:
                self.proc.stdin.close()
                self.proc.wait(timeout=10)
            except Exception:   # noqa: BLE001
                self.proc.kill()


CLIENT = Client()
