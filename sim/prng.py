"""One integer decides everything.

VERIF_SEED and the property id give run seeds; inside a run, independent named
streams are derived by hashing (run seed, stream name), so adding a draw to one
stream never shifts another.  Nothing here reads a clock, the process hash seed
or the global torch RNG.
"""
import hashlib
import random

MASK64 = (1 << 64) - 1


def derive(*parts):
    """Deterministic 64-bit integer from any tuple of ints/strings."""
    h = hashlib.sha256(repr(tuple(parts)).encode()).digest()
    return int.from_bytes(h[:8], "big")


def run_seed(verif_seed, prop, index):
    return derive("run", int(verif_seed), str(prop), int(index))


class Stream(random.Random):
    """A named PRNG stream of a run (Mersenne twister seeded from an int:
    identical across interpreters and PYTHONHASHSEED values)."""

    def __init__(self, seed, name):
        super().__init__(derive("stream", int(seed), str(name)))
        self.name = name

    def chance(self, p):
        return self.random() < p

    def pick(self, items):
        return items[self.randrange(len(items))]

    def weighted(self, items, weights):
        tot = float(sum(weights))
        if tot <= 0:
            return self.pick(list(items))
        r = self.random() * tot
        acc = 0.0
        for it, w in zip(items, weights):
            acc += w
            if r < acc:
                return it
        return items[-1]

    def seed30(self):
        return self.randrange(1 << 30)
