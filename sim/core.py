"""Simulator core: bootstrapping of the system under test, event log, the step
loop, interrupts, shrinking and replay.

A *world* (one per property, see checks/) owns the real nflows objects, the
reference model and the oracle.  The core owns time (the logical step counter),
the PRNG streams, the event log and the search.
"""
import hashlib
import json
import os
import sys
import time

from . import prng

REPO = os.path.realpath(os.environ.get("VERIF_REPO", "/repo"))
_BOOTED = False
torch = None


class Violation(Exception):
    """The property was observed to fail.  kind is a short stable identifier."""

    def __init__(self, kind, detail=""):
        super().__init__(kind, detail)
        self.kind = kind
        self.detail = detail


class HarnessError(Exception):
    """The machinery itself is wrong or was used wrongly (never a verdict)."""


class ConfigRejected(Exception):
    """The code under test refused to construct the model of a generated configuration."""


class Interrupt(BaseException):
    """Injected asynchronous interruption (Ctrl-C / failed allocation)."""


def boot():
    """Import torch and the nflows of $VERIF_REPO's *working tree*."""
    global _BOOTED, torch
    if _BOOTED:
        return torch
    os.environ.setdefault("OMP_NUM_THREADS", "1")
    os.environ.setdefault("MKL_NUM_THREADS", "1")
    if not os.path.isdir(os.path.join(REPO, "nflows")):
        raise HarnessError("no nflows package under VERIF_REPO=%s" % REPO)
    # after the harness root (sys.path[0]), so that a top-level `checks` or `sim` package inside the repo cannot shadow
    # the harness; nflows itself only exists under REPO
    sys.path.insert(1, REPO)
    sys.dont_write_bytecode = True
    import warnings

    warnings.filterwarnings("ignore")
    import torch as _torch

    _torch.set_num_threads(1)
    try:
        _torch.set_num_interop_threads(1)
    except RuntimeError:
        pass
    import nflows

    got = os.path.realpath(os.path.dirname(nflows.__file__))
    want = os.path.join(REPO, "nflows")
    if got != want:
        raise HarnessError("nflows imported from %s, expected %s" % (got, want))
    torch = _torch
    _BOOTED = True
    return torch


# --------------------------------------------------------------------------
# tensors from seeds (never the global RNG)
# --------------------------------------------------------------------------

def seeded(seed, shape, dtype=None, scale=1.0, shift=0.0, dist="normal"):
    t = boot()
    g = t.Generator()
    g.manual_seed(int(seed))
    if dist == "normal":
        x = t.randn(*shape, generator=g, dtype=t.float64)
    else:
        x = t.rand(*shape, generator=g, dtype=t.float64)
    x = x * scale + shift
    return x.to(dtype or t.float32)


def seed_global(seed):
    """Set the global (CPU) torch RNG - the only RNG nflows draws from.
    torch.manual_seed() also walks the CUDA/XPU/MTIA lazy-init queues and formats a
    stack trace for each (1.3 ms per call here); the CPU generator is all we need."""
    boot().default_generator.manual_seed(int(seed) & 0x7FFFFFFFFFFFFFFF)
    # a library may equally draw constructor-time randomness from numpy's or Python's global generators
    import random as _random

    import numpy as _np

    _np.random.seed(int(seed) % (2 ** 32))
    _random.seed(int(seed))


def clip_grads(params, max_norm):
    t = boot()
    gs = [p.grad for p in params if p.grad is not None]
    if not gs:
        return
    tot = float(sum(float((g.double() ** 2).sum()) for g in gs)) ** 0.5
    if not (tot == tot) or tot == float("inf"):
        for g in gs:
            g.zero_()
        return
    if tot > max_norm:
        with t.no_grad():
            for g in gs:
                g.mul_(max_norm / tot)


def tbytes(x):
    """Raw bytes of a tensor (layout-independent, dtype-dependent)."""
    t = boot()
    if x is None:
        return b"<none>"
    if not isinstance(x, t.Tensor):
        return repr(x).encode()
    y = x.detach()
    if y.dtype == t.bool:
        y = y.to(t.uint8)
    return str(y.dtype).encode() + str(tuple(y.shape)).encode() + y.contiguous().cpu().numpy().tobytes()


class EventLog:
    def __init__(self):
        self.h = hashlib.sha256()
        self.n = 0

    def add(self, *items):
        for it in items:
            if isinstance(it, bytes):
                self.h.update(it)
            elif isinstance(it, str):
                self.h.update(it.encode())
            elif it is None or isinstance(it, (int, float, bool, tuple, list, dict)):
                self.h.update(json.dumps(it, sort_keys=True, default=str).encode())
            else:
                self.h.update(tbytes(it))
            self.h.update(b"|")
        self.n += 1

    def digest(self):
        return self.h.hexdigest()


# --------------------------------------------------------------------------
# interrupts: raise at the k-th line event inside $VERIF_REPO/nflows frames
# --------------------------------------------------------------------------

_NFLOWS_PREFIX = None


def _prefix():
    global _NFLOWS_PREFIX
    if _NFLOWS_PREFIX is None:
        _NFLOWS_PREFIX = os.path.join(REPO, "nflows") + os.sep
    return _NFLOWS_PREFIX


_MON_TOOL = 3
_MON_READY = False


def _instrument_nflows():
    """Instruction-level interruption points (thorough tier): sys.monitoring
    INSTRUCTION events on every code object defined under $VERIF_REPO/nflows.
    (settrace 'opcode' events only arrive from the second traced execution of a
    code object on 3.12, which would make the schedule depend on process history;
    monitoring events arrive from the first execution and the count per call was
    measured to be independent of warm-up.)"""
    global _MON_READY
    if _MON_READY:
        return
    import types

    for m in ("nflows.transforms", "nflows.distributions", "nflows.flows", "nflows.nn.nets", "nflows.nn.nde", "nflows.utils"):
        __import__(m)
    pre = _prefix()
    codes = set()

    def walk(code):
        if code in codes:
            return
        codes.add(code)
        for c in code.co_consts:
            if isinstance(c, types.CodeType):
                walk(c)

    def fn_code(f):
        if isinstance(f, (staticmethod, classmethod)):
            f = f.__func__
        if isinstance(f, types.FunctionType) and f.__code__.co_filename.startswith(pre):
            walk(f.__code__)

    for name, mod in sorted(sys.modules.items()):
        f = getattr(mod, "__file__", None)
        if not f or not f.startswith(pre):
            continue
        for obj in list(vars(mod).values()):
            if isinstance(obj, type):
                for v in list(vars(obj).values()):
                    if isinstance(v, property):
                        for g in (v.fget, v.fset, v.fdel):
                            if g is not None:
                                fn_code(g)
                    else:
                        fn_code(v)
            else:
                fn_code(obj)
    mon = sys.monitoring
    mon.use_tool_id(_MON_TOOL, "nflows-dst")
    for c in codes:
        mon.set_local_events(_MON_TOOL, c, mon.events.INSTRUCTION)
    _MON_READY = True


def call_interruptible(fn, k, opcode=False):
    """Run fn(); raise Interrupt inside the k-th event of an nflows frame (line
    events through sys.settrace, or instruction events through sys.monitoring).
    Returns (fired, events_seen, result).  k=None: plain call."""
    if not k:
        return False, 0, fn()
    box = {"n": 0, "fired": False}
    if opcode:
        _instrument_nflows()
        mon = sys.monitoring

        def on_instruction(code, offset):
            box["n"] += 1
            if box["n"] == k:
                box["fired"] = True
                raise Interrupt()

        mon.register_callback(_MON_TOOL, mon.events.INSTRUCTION, on_instruction)
        try:
            res = fn()
        except Interrupt:
            return True, box["n"], None
        finally:
            mon.register_callback(_MON_TOOL, mon.events.INSTRUCTION, None)
        return False, box["n"], res
    pre = _prefix()

    def local(frame, event, arg):
        if event == "line":
            box["n"] += 1
            if box["n"] == k:
                box["fired"] = True
                raise Interrupt()
        return local

    def glob(frame, event, arg):
        if frame.f_code.co_filename.startswith(pre):
            return local
        return None

    old = sys.gettrace()
    sys.settrace(glob)
    try:
        res = fn()
    except Interrupt:
        return True, box["n"], None
    finally:
        sys.settrace(old)
    return False, box["n"], res


# --------------------------------------------------------------------------
# one run
# --------------------------------------------------------------------------

def _result(world, cfg, ops, log, violation, seed, t0):
    st = world.stats()
    return {
        "seed": seed,
        "cfg": cfg,
        "ops": ops,
        "violation": violation,
        "digest": log.digest(),
        "steps": len(ops),
        "wall": time.perf_counter() - t0,
        **st,
    }


def _step(world, op, log, i):
    """Execute one op; returns violation dict or None."""
    pre = world.abstract()
    log.add("op", op, list(pre))
    try:
        world.step(op, log)
    except Violation as v:
        log.add("VIOLATION", v.kind)
        return {"kind": v.kind, "step": i, "op": op.get("op"), "detail": str(v.detail)[:600]}
    post = world.abstract()
    world.note_transition(pre, op.get("op"), post)
    return None


def run_generated(world_cls, seed, tier):
    """Generate a history op by op (state-aware), executing as we go."""
    boot()
    t0 = time.perf_counter()
    streams = {n: prng.Stream(seed, n) for n in ("cfg", "sched", "data", "fault")}
    cfg = world_cls.gen_config(streams["cfg"], tier)
    try:
        world = world_cls(cfg)
    except (HarnessError, Violation):
        raise
    except Exception as e:   # noqa: BLE001 - a constructor of the code under test raised
        raise ConfigRejected("%s: %s" % (type(e).__name__, str(e)[:200]))
    log = EventLog()
    log.add("cfg", cfg)
    ops = []
    violation = None
    for i in range(cfg["length"]):
        op = world.gen_op(streams)
        ops.append(op)
        violation = _step(world, op, log, i)
        if violation:
            break
    if violation is None:
        violation = _final(world, log, len(ops))
    return _result(world, cfg, ops, log, violation, seed, t0)


def _final(world, log, n):
    try:
        world.finish(log)
    except Violation as v:
        log.add("VIOLATION", v.kind)
        return {"kind": v.kind, "step": n, "op": "<finish>", "detail": str(v.detail)[:600]}
    return None


def run_ops(world_cls, cfg, ops, seed=None):
    """Replay: a pure function of (cfg, ops) and the code under test."""
    boot()
    t0 = time.perf_counter()
    world = world_cls(cfg)
    log = EventLog()
    log.add("cfg", cfg)
    violation = None
    done = []
    for i, op in enumerate(ops):
        done.append(op)
        violation = _step(world, op, log, i)
        if violation:
            break
    if violation is None:
        violation = _final(world, log, len(done))
    return _result(world, cfg, done, log, violation, seed, t0)


# --------------------------------------------------------------------------
# shrinking
# --------------------------------------------------------------------------

def _same(v, target):
    return v is not None and v["kind"] == target["kind"] and v["op"] == target["op"]


def shrink(world_cls, cfg, ops, target, budget=400):
    """ddmin over the op list, then cfg / argument simplification, accepting a
    candidate only if it yields the same violation kind at the same op kind."""
    tries = [0]

    def fails(c, o):
        if tries[0] >= budget:
            return None
        tries[0] += 1
        try:
            r = run_ops(world_cls, c, o)
        except HarnessError:
            return None
        except Exception:
            return None
        return r if _same(r["violation"], target) else None

    best = fails(cfg, ops)
    if best is None:
        return None
    ops = best["ops"]
    # --- ddmin
    n = 2
    while len(ops) >= 2 and tries[0] < budget:
        chunk = max(1, len(ops) // n)
        reduced = False
        for start in range(0, len(ops), chunk):
            cand = ops[:start] + ops[start + chunk:]
            if not cand:
                continue
            r = fails(cfg, cand)
            if r:
                ops, best = r["ops"], r
                n = max(n - 1, 2)
                reduced = True
                break
        if not reduced:
            if chunk == 1:
                break
            n = min(len(ops), n * 2)
    # --- single deletions to a fixpoint
    changed = True
    while changed and tries[0] < budget:
        changed = False
        for i in range(len(ops) - 1, -1, -1):
            cand = ops[:i] + ops[i + 1:]
            if not cand:
                continue
            r = fails(cfg, cand)
            if r:
                ops, best, changed = r["ops"], r, True
                break
    # --- configuration and argument simplification
    for _round in range(3):
        progress = False
        for c2 in world_cls.simplify_cfg(cfg):
            r = fails(c2, ops)
            if r:
                cfg, best, progress = c2, r, True
                break
        i = 0
        while i < len(ops):
            for o2 in world_cls.simplify_op(ops[i]):
                cand = ops[:i] + [o2] + ops[i + 1:]
                r = fails(cfg, cand)
                if r:
                    ops, best, progress = r["ops"], r, True
                    break
            i += 1
        if not progress:
            break
    best = dict(best)
    best["shrink_tries"] = tries[0]
    return best


# --------------------------------------------------------------------------
# replay files
# --------------------------------------------------------------------------

def write_replay(path, prop, res, orig_seed, verif_seed, tier):
    doc = {
        "property": prop,
        "verif_seed": verif_seed,
        "tier": tier,
        "run_seed": orig_seed,
        "cfg": res["cfg"],
        "ops": res["ops"],
        "expect": res["violation"],
        "digest": res["digest"],
        "how_to_replay": "cd /verif && /venv/bin/python check --replay %s" % path,
    }
    os.makedirs(os.path.dirname(path), exist_ok=True)
    with open(path, "w") as f:
        json.dump(doc, f, indent=1, sort_keys=True)
    return doc


def replay_file(path, worlds):
    with open(path) as f:
        doc = json.load(f)
    wc = worlds[doc["property"]]
    res = run_ops(wc, doc["cfg"], doc["ops"], seed=doc.get("run_seed"))
    exp = doc.get("expect")
    same = (
        res["violation"] is not None
        and exp is not None
        and res["violation"]["kind"] == exp["kind"]
        and res["violation"]["step"] == exp["step"]
    )
    return doc, res, same
