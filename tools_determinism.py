#!/venv/bin/python
"""Determinism proof on a large sample: run the first N run-indices of a property
in three independent batches of fresh interpreters that differ in worker count
and PYTHONHASHSEED, and diff the event-log digests.

  /venv/bin/python tools_determinism.py C10 20000 [quick|thorough]
"""
import sys, os, time
sys.path.insert(0, os.path.dirname(os.path.abspath(__file__)))
from sim import runner

prop, n = sys.argv[1], int(sys.argv[2])
tier = sys.argv[3] if len(sys.argv) > 3 else "quick"
idx = list(range(n))
t0 = time.time()
res = []
for workers, hb in ((16, 100), (7, 9000), (3, 31337)):
    parts = runner.fan_out(prop, tier, 0, idx, workers, hash_base=hb, cap=6000, shrink_cap=0, stop_after=10 ** 9)
    res.append(runner.merge(parts)["digests"])
    print("batch workers=%d hashbase=%d: %d digests, %.0fs" % (workers, hb, len(res[-1]), time.time() - t0)); sys.stdout.flush()
bad = [i for i in res[0] if res[1].get(i) != res[0][i] or res[2].get(i) != res[0][i]]
print("%s: %d runs x 3 batches, %d mismatching run indices %s" % (prop, n, len(bad), bad[:10]))
sys.exit(1 if bad else 0)
