#!/usr/bin/env python3
"""Sensitivity suite: apply each mutant (a search/replace on a scratch copy of
/repo/nflows, never on /repo), run the property's check against the copy with
VERIF_REPO, expect a VIOLATION (or, for mutants marked equivalent, a clean
pass), delete the copy.

  python3 tools_mutants.py C10 [--runs N] [--only name]
"""
import argparse, json, os, shutil, subprocess, sys, tempfile, time

ROOT = os.path.dirname(os.path.abspath(__file__))


def run_suite(prop, runs=None, only=None, tier="quick", verbose=True):
    """Returns {mutant name: {"expected": "violation"|"quiet", "exit": rc, "as_expected": bool, "first": str}}."""
    muts = json.load(open(os.path.join(ROOT, "mutants", prop + ".json")))
    out = {}
    for m in muts:
        if only and m["name"] != only:
            continue
        scratch = tempfile.mkdtemp(prefix="nflows_mut_")
        try:
            base = os.path.realpath(os.environ.get("VERIF_REPO", "/repo"))
            shutil.copytree(os.path.join(base, "nflows"), os.path.join(scratch, "nflows"))
            for e in m["edits"]:
                p = os.path.join(scratch, e["file"])
                s = open(p).read()
                if s.count(e["find"]) != 1:
                    raise SystemExit("mutant %s: pattern occurs %d times in %s" % (m["name"], s.count(e["find"]), e["file"]))
                open(p, "w").write(s.replace(e["find"], e["replace"]))
            env = dict(os.environ, VERIF_REPO=scratch, VERIF_TIER=tier)
            cmd = ["/venv/bin/python", os.path.join(ROOT, "check"), prop, "--tier", tier, "--no-evidence", "--no-mutants"]
            if runs:
                cmd += ["--runs", str(runs)]
            t0 = time.time()
            r = subprocess.run(cmd, env=env, cwd=ROOT, capture_output=True, text=True)
            dt = time.time() - t0
            viol = [l for l in r.stdout.splitlines() if l.startswith("  violation kind=")]
            expect = 0 if m.get("equivalent") else 1
            ok = (r.returncode == expect)
            out[m["name"]] = {"expected": "quiet" if m.get("equivalent") else "violation", "exit": r.returncode,
                              "as_expected": ok, "first": (viol[0].strip()[:200] if viol else ""), "wall_s": round(dt, 1)}
            if verbose:
                print("%-52s %-10s exit=%d %s %5.1fs %s" % (m["name"], "equivalent" if m.get("equivalent") else "breaks", r.returncode,
                                                         "OK" if ok else "** MISSED/WRONG **", dt, (viol[0].strip()[:150] if viol else "")))
                if r.returncode == 2:
                    print(r.stdout[-1500:])
                sys.stdout.flush()
        finally:
            shutil.rmtree(scratch, ignore_errors=True)
    return out


def main():
    ap = argparse.ArgumentParser()
    ap.add_argument("prop")
    ap.add_argument("--runs", type=int, default=None)
    ap.add_argument("--only")
    ap.add_argument("--tier", default="quick")
    a = ap.parse_args()
    res = run_suite(a.prop, a.runs, a.only, a.tier)
    bad = [k for k, v in res.items() if not v["as_expected"]]
    print("%d mutants, %d as expected, %d not %s" % (len(res), len(res) - len(bad), len(bad), bad))
    return 1 if bad else 0


if __name__ == "__main__":
    sys.exit(main())
