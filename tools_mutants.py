#!/usr/bin/env python3
"""Sensitivity suite: apply each mutant (a search/replace on a scratch copy of
/repo/nflows, never on /repo), run the property's check against the copy with
VERIF_REPO, expect a VIOLATION (or, for mutants marked equivalent, a clean
pass), delete the copy.

  python3 tools_mutants.py C10 [--runs N] [--only name]
"""
import argparse, json, os, shutil, subprocess, sys, tempfile, time

ROOT = os.path.dirname(os.path.abspath(__file__))


def main():
    ap = argparse.ArgumentParser()
    ap.add_argument("prop")
    ap.add_argument("--runs", type=int, default=None)
    ap.add_argument("--only")
    ap.add_argument("--tier", default="quick")
    a = ap.parse_args()
    muts = json.load(open(os.path.join(ROOT, "mutants", a.prop + ".json")))
    rows = []
    for m in muts:
        if a.only and m["name"] != a.only:
            continue
        scratch = tempfile.mkdtemp(prefix="nflows_mut_")
        try:
            shutil.copytree("/repo/nflows", os.path.join(scratch, "nflows"))
            for e in m["edits"]:
                p = os.path.join(scratch, e["file"])
                s = open(p).read()
                if s.count(e["find"]) != 1:
                    raise SystemExit("mutant %s: pattern occurs %d times in %s" % (m["name"], s.count(e["find"]), e["file"]))
                open(p, "w").write(s.replace(e["find"], e["replace"]))
            env = dict(os.environ, VERIF_REPO=scratch)
            cmd = ["/venv/bin/python", os.path.join(ROOT, "check"), a.prop, "--tier", a.tier, "--no-evidence"]
            if a.runs:
                cmd += ["--runs", str(a.runs)]
            t0 = time.time()
            r = subprocess.run(cmd, env=env, cwd=ROOT, capture_output=True, text=True)
            dt = time.time() - t0
            viol = [l for l in r.stdout.splitlines() if l.startswith("  violation kind=")]
            expect = 0 if m.get("equivalent") else 1
            ok = (r.returncode == expect)
            rows.append((m["name"], "equivalent" if m.get("equivalent") else "breaks", r.returncode, ok, dt, viol[:2]))
            print("%-44s %-10s exit=%d %s %5.1fs %s" % (m["name"], rows[-1][1], r.returncode, "OK" if ok else "** MISSED/WRONG **", dt,
                                                     (viol[0].strip()[:150] if viol else "")))
            if r.returncode == 2:
                print(r.stdout[-1500:])
            sys.stdout.flush()
        finally:
            shutil.rmtree(scratch, ignore_errors=True)
    bad = [r for r in rows if not r[3]]
    print("%d mutants, %d as expected, %d not" % (len(rows), len(rows) - len(bad), len(bad)))
    return 1 if bad else 0


if __name__ == "__main__":
    sys.exit(main())
