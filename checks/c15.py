"""C15 - saving and reloading a model reproduces the same function.

System: a model A from the zoo built under seed s0 and driven by a seeded history
(mode switches, training-mode passes that acquire state, parameter updates), in
float32 or float64.  Fault: crash+restart - serialise the state dict with torch.save
into the simulated storage, construct a fresh incarnation of the same JSON spec
under another seed, torch.load + load_state_dict(strict=True).  After a restart
the history continues on *all* incarnations in lock-step (same ops, same RNG
state before each call); every output and every state_dict must stay
bit-identical.  Restarts chain (third generation from the second's checkpoint).
"""
from sim import core, zoo
from sim.core import Violation, HarnessError
from sim.world import World, grad_ctx

OPKINDS = ["probe", "train", "eval", "trainpass", "update", "restart"]


def _T():
    return core.boot()


def _dropouts(spec):
    if isinstance(spec, dict):
        for k, v in spec.items():
            if k == "dropout":
                yield float(v or 0.0)
            else:
                yield from _dropouts(v)
    elif isinstance(spec, list):
        for v in spec:
            yield from _dropouts(v)


def _sd(module):
    return {k: core.tbytes(v) for k, v in module.state_dict().items() if hasattr(v, "dtype") and hasattr(v, "shape")}


class C15World(World):
    prop = "C15"
    RULE = ("each run: one model spec from the zoo (emphasis on constructor-time randomness: random permutations, random masks "
            "and degrees, random spline/CDF parameters, Householder/LU/QR/SVD initialisers, MADE mixtures, flows with random "
            "masks/permutations) built under seed s0 (float32, or converted to float64 right after construction), a seeded "
            "history over {train, eval, training-mode pass (in 40 % of the runs possibly cut short by an injected interruption, i.e. a "
            "crash point inside an operation), parameter update, probe call} and crash+restart faults that rebuild the spec under another seed and load the "
            "checkpoint through torch.save/torch.load; all incarnations then continue in lock-step. After every op all "
            "state_dicts are bit-identical and every probe (forward, inverse, log_prob, transform_to_noise, sample with "
            "equalised RNG) returns bit-identical tensors. Non-trivial iff >= 1 restart preceded by >= 1 state-changing op "
            "and followed by >= 1 comparison, on a spec whose fresh constructions under the two seeds differ; distinct = "
            "distinct (model label, op-kind sequence) among those.")
    REAL = ["every nflows class in the zoo (working tree of $VERIF_REPO)", "torch.save / torch.load (weights_only) / load_state_dict(strict=True) / Module._apply"]
    STUB = ["storage medium (in-memory bytes of torch.save output)", "process boundary (fresh instance under another seed in the same "
            "interpreter; for 1 % (quick) / 5 % (thorough) of the runs additionally a REAL fresh interpreter with another PYTHONHASHSEED "
            "that receives only the spec and the checkpoint bytes)",
            "training loop (synthetic loss, plain SGD update p -= lr*grad)"]
    ASSUME = ["'same configuration' means the same JSON spec; the zoo covers the constructor arguments it enumerates",
              "CPU, one thread (bit-reproducible across processes and alignments: measured, see DESIGN section 2)",
              "checkpoint corruption is out of scope (torch.load would fail before any nflows code runs)"]
    EXPECTED_PROBES = ["restart_before_data_dependent_init", "restart_after_data_dependent_init", "restart_after_parameter_update",
                       "second_generation_restart", "restart_in_float64", "fresh_constructions_differ", "sample_compared",
                       "inverse_compared", "training_mode_compared", "real_subprocess_restart_compared",
                       "restart_from_state_torn_by_interrupted_training_pass"]

    # ------------------------------------------------------------ config
    @classmethod
    def gen_config(cls, rng, tier):
        spec = zoo.gen_spec(rng, allow_slow=rng.chance(0.1 if tier == "quick" else 0.25))
        # C15 continues TRAINING on all incarnations and compares bit for bit, which is only meaningful when a
        # training-mode pass is a deterministic function of (state, input). Models with dropout > 0 are still built,
        # saved, reloaded and compared - but only in evaluation mode (see `stochastic_training`)
        cfg = {"spec": spec, "label": zoo.label(spec), "seed": rng.seed30(),
               "length": rng.pick([3, 4, 5, 6, 8, 10, 12] if tier == "quick" else [5, 8, 12, 20, 30]),
               "weights": {k: rng.pick([0, 1, 1, 3]) for k in OPKINDS}}
        # dtype is a per-run configuration (converted right after construction, on every incarnation alike):
        # mid-history float()/double() round trips legitimately degrade constructor-fixed float64 constants
        # (e.g. the normalising constant of the normal distributions) on the old incarnation only, which is
        # numerics, not a save/reload defect, and dtype conversions are not in C15's quantifier.
        cfg["dtype64"] = rng.chance(0.2)
        # the real process boundary: at the end of the run the newest checkpoint is shipped to a fresh
        # interpreter (other PYTHONHASHSEED, other seed) and probed there
        cfg["xproc"] = rng.chance(0.01 if tier == "quick" else 0.05)
        cfg["faulty"] = rng.chance(0.4)
        cfg["opcode"] = bool(tier == "thorough" and rng.chance(0.3))
        cfg["weights"]["restart"] = max(cfg["weights"]["restart"], 1)
        cfg["weights"]["probe"] = max(cfg["weights"]["probe"], 1)
        return cfg

    @classmethod
    def simplify_cfg(cls, cfg):
        from checks.c13 import C13World

        return C13World.simplify_cfg(cfg)

    @classmethod
    def simplify_op(cls, op):
        out = []
        if op.get("rows", 1) > 1:
            out.append(dict(op, rows=1))
        if op.get("interrupt"):
            o = dict(op); o.pop("interrupt"); out.append(o)
        return out

    # ------------------------------------------------------------ set-up
    def __init__(self, cfg):
        super().__init__(cfg)
        self.entry = zoo.build(cfg["spec"], cfg["seed"])
        self.inc = [self.entry.obj]            # incarnations, oldest first
        self.changed = 0                       # state-changing ops so far
        self.changed_before_restart = False
        self.restarts = 0
        self.compared_after_restart = 0
        self.differ = False
        self.dtype64 = bool(cfg.get("dtype64"))
        if self.dtype64:
            self.inc[0].double()
        self.updated = False
        self.torn = False
        self.sampling_uncontrolled = False
        self.stochastic_training = any(v > 0 for v in _dropouts(cfg["spec"]))
        if self.stochastic_training:
            self.inc[0].eval()
        self.has_init = [m for m in self.inc[0].modules() if type(m).__name__ == "ActNorm"]

    def abstract(self):
        a = self.inc[0]
        inits = tuple(bool(m.initialized) for m in a.modules() if type(m).__name__ == "ActNorm")
        return (bool(a.training), len(self.inc), min(self.restarts, 3), inits, self.dtype64, min(self.changed, 3))

    def nontrivial(self):
        return self.restarts > 0 and self.changed_before_restart and self.compared_after_restart > 0 and self.differ

    # ------------------------------------------------------------ op generation
    def gen_op(self, streams):
        sched, data = streams["sched"], streams["data"]
        w = self.cfg["weights"]
        last = getattr(self, "_last", None)
        r = sched.random()
        if last in ("trainpass", "update") and r < 0.4:
            kind = "restart"
        elif last == "restart" and r < 0.7:
            kind = sched.weighted(["probe", "trainpass", "eval"], [4, 2, 1])
        else:
            kind = sched.weighted(OPKINDS, [w[k] for k in OPKINDS])
        op = {"op": kind}
        e = self.entry
        if kind in ("probe", "trainpass"):
            fns = e.calls() if kind == "probe" else [c for c in e.calls() if c in ("forward", "log_prob")]
            op.update(fn=sched.pick(fns), x=data.seed30(), rows=data.pick([1, 2, 3, 4]), rng=data.pick([1, 2, 3]), n=data.pick([1, 2, 3]),
                      scale=data.pick([1.0, 1.0, 3.0]))
            if self.cfg.get("faulty") and kind == "trainpass" and streams["fault"].chance(0.3):
                import math
                hi = 3000 * (8 if self.cfg.get("opcode") else 1)
                op["interrupt"] = max(1, int(math.exp(streams["fault"].random() * math.log(hi))))
        elif kind == "update":
            op.update(x=data.seed30(), rows=3, lr=data.pick([0.01, 0.1]), rng=data.pick([1, 2]))
        elif kind == "restart":
            op.update(seed=data.seed30())
        self._last = kind
        return op

    # ------------------------------------------------------------ calls
    def _invoke(self, root, op, dtype):
        torch = _T()
        e = self.entry
        fn = op["fn"]
        rows = int(op.get("rows", 2))
        sc = float(op.get("scale", 1.0))
        ctx = zoo.make_context(e, op["x"], rows, dtype=dtype)
        core.seed_global(op.get("rng", 1))
        if fn == "forward":
            return root(zoo.make_input(e, op["x"], rows, dtype=dtype, scale=sc), ctx)
        if fn == "inverse":
            return root.inverse(zoo.make_input(e, op["x"], rows, dtype=dtype, inverse=True, scale=sc), ctx)
        if fn == "log_prob":
            return root.log_prob(zoo.make_input(e, op["x"], rows, dtype=dtype, scale=sc), ctx)
        if fn == "transform_to_noise":
            return root.transform_to_noise(zoo.make_input(e, op["x"], rows, dtype=dtype, scale=sc), ctx)
        if fn == "sample":
            return root.sample(int(op.get("n", 2)), context=ctx)
        if fn == "sample_and_log_prob":
            return root.sample_and_log_prob(int(op.get("n", 2)), context=ctx)
        raise HarnessError(fn)

    def _dtype(self):
        torch = _T()
        return torch.float64 if self.dtype64 else torch.float32

    def _all(self, op, log, grad="no_grad"):
        """Run the same call on every incarnation; compare bitwise."""
        results = []
        k = op.get("interrupt") if self.cfg.get("faulty") else None
        if k and len(self.inc) > 1:
            # a crash point inside an operation is injected on ONE incarnation only: a warm and a cold instance may
            # legitimately execute different numbers of Python lines (lazy memos, lazily created scratch buffers), so
            # "the k-th line" is not the same place on both. Keep the newest incarnation; the next restart forks from
            # the torn state it is left in.
            self.inc = [self.inc[-1]]
            self.probes["collapsed_to_one_incarnation_before_interrupt"] += 1
        sampling = op["fn"] in ("sample", "sample_and_log_prob")
        if sampling and (self.inc[0].training or self.sampling_uncontrolled):
            # sampling is compared only where it is a function of the global RNG state (calibrated below, in
            # evaluation mode); C15 itself speaks of forward, inverse and log_prob
            log.add("sample_not_compared")
            return False
        for root in self.inc:
            with grad_ctx(grad):
                try:
                    fired, seen, res = core.call_interruptible(lambda: self._invoke(root, op, self._dtype()), k,
                                                               opcode=self.cfg.get("opcode", False))
                    if fired:
                        # a crash point INSIDE an operation: whatever state the interruption left behind is what a
                        # checkpoint taken now would hold; every incarnation must have been torn identically
                        results.append(("interrupted", seen))
                        continue
                    outs = res if isinstance(res, tuple) else (res,)
                    results.append(("ok", b"".join(core.tbytes(o) for o in outs)))
                except Exception as ex:   # noqa: BLE001 - whether a call is valid is not C15's business, only that all incarnations agree
                    results.append(("raised", type(ex).__name__))
        first = results[0]
        if sampling and first[0] == "ok":
            # calibration: the same call again on the first incarnation under the same global RNG state
            with grad_ctx(grad):
                try:
                    res = self._invoke(self.inc[0], op, self._dtype())
                    outs = res if isinstance(res, tuple) else (res,)
                    again = ("ok", b"".join(core.tbytes(o) for o in outs))
                except Exception as ex:   # noqa: BLE001
                    again = ("raised", type(ex).__name__)
            if again != first:
                self.sampling_uncontrolled = True
                self.probes["sampling_not_a_function_of_the_global_rng"] += 1
                log.add("sample_not_compared")
                return False
        for i, r in enumerate(results[1:], 1):
            self.comparisons += 1
            if r != first:
                what = "raised %s vs %s" % (first[1], r[1]) if "raised" in (first[0], r[0]) else "different bits"
                raise Violation("reloaded_model_differs", "%s on incarnation %d of %d (%s mode): %s" % (
                    op["fn"], i, len(self.inc), "training" if self.inc[0].training else "evaluation", what))
        if k:
            (self.faults if first[0] == "interrupted" else self.faults_missed)["interrupt_in_call"] += 1
            if first[0] == "interrupted":
                self.torn = True
        if len(self.inc) > 1:
            self.compared_after_restart += 1
            if first[0] == "ok":
                if op["fn"] in ("sample", "sample_and_log_prob"):
                    self.probes["sample_compared"] += 1
                if op["fn"] == "inverse":
                    self.probes["inverse_compared"] += 1
                if self.inc[0].training:
                    self.probes["training_mode_compared"] += 1
        log.add(first[0], "sampled" if sampling else first[1])
        return first[0] in ("ok", "interrupted")

    # ------------------------------------------------------------ step
    def step(self, op, log):
        torch = _T()
        kind = op["op"]
        if self.stochastic_training and kind in ("train", "trainpass", "update"):
            # dropout > 0: a training-mode pass draws random masks (from whatever generator the library likes), so
            # original and reincarnation cannot be compared bit for bit there; such models live in evaluation mode
            log.add("skipped_stochastic_training_op", kind)
            self._lockstep(kind)
            return
        if kind == "train":
            for r in self.inc:
                r.train()
            log.add("train")
        elif kind == "eval":
            for r in self.inc:
                r.eval()
            log.add("eval")
        elif kind == "probe":
            if op["fn"] in self.entry.calls():
                self._all(op, log)
        elif kind == "trainpass":
            if op["fn"] in self.entry.calls():
                for r in self.inc:
                    r.train()
                if self._all(op, log):
                    self.changed += 1
        elif kind == "update":
            self._update(op, log)
        elif kind == "restart":
            self._restart(op, log)
        else:
            raise HarnessError("unknown op %r" % (op,))
        self._lockstep(kind)

    def _update(self, op, log):
        torch = _T()
        e = self.entry
        fn = "log_prob" if e.kind in ("dist", "flow") else "forward"
        done = []
        for root in self.inc:
            was = root.training
            root.train()
            params = [p for p in root.parameters() if p.requires_grad]
            for p in params:
                p.grad = None
            try:
                with torch.enable_grad():
                    res = self._invoke(root, dict(op, fn=fn), self._dtype())
                    outs = res if isinstance(res, tuple) else (res,)
                    loss = sum((o.float() ** 2).mean() for o in outs if o.is_floating_point())
                    if not (isinstance(loss, torch.Tensor) and loss.requires_grad):
                        done.append("no_grad_path")
                        root.train(was)
                        continue
                    loss.backward()
                core.clip_grads(params, 1.0)
                with torch.no_grad():
                    for p in params:
                        if p.grad is not None:
                            p.add_(p.grad, alpha=-float(op["lr"]))
                done.append("stepped")
            except Exception as ex:   # noqa: BLE001
                done.append("raised:" + type(ex).__name__)
            for p in params:
                p.grad = None
            root.train(was)
        if any(d != done[0] for d in done):
            raise Violation("reloaded_model_differs", "parameter update behaved differently across incarnations: %s" % done)
        if done and done[0] == "stepped":
            self.changed += 1
            self.updated = True
        log.add("update", done[0] if done else "none")

    def _restart(self, op, log):
        torch = _T()
        src = self.inc[-1]
        inits = [bool(m.initialized) for m in src.modules() if type(m).__name__ == "ActNorm"]
        self.save_bytes("ckpt", src.state_dict())
        try:
            fresh = zoo.build(self.cfg["spec"], int(op["seed"])).obj
            if self.dtype64:
                fresh.double()
        except Exception as e:   # noqa: BLE001 - a constructor that refuses under this seed: no restart
            self.probes["restart_skipped_constructor_refused"] += 1
            log.add("restart_skipped", type(e).__name__)
            return
        if _sd(fresh) != _sd(src):
            self.differ = True
            self.probes["fresh_constructions_differ"] += 1
        try:
            result = fresh.load_state_dict(self.load_bytes("ckpt"), strict=True)
        except Exception as ex:   # noqa: BLE001
            raise Violation("state_dict_does_not_reload", "%s: %s" % (type(ex).__name__, str(ex)[:400]))
        if getattr(result, "missing_keys", None) or getattr(result, "unexpected_keys", None):
            raise Violation("state_dict_does_not_reload", "missing %s unexpected %s" % (result.missing_keys, result.unexpected_keys))
        fresh.train(src.training)
        if self.stochastic_training:
            fresh.eval()
        self.inc.append(fresh)
        if len(self.inc) > 3:
            self.inc.pop(1)           # keep the original, the previous generation and the newest
        self.restarts += 1
        self.faults["crash_restart"] += 1
        if self.changed > 0:
            self.changed_before_restart = True
        if inits:
            self.probes["restart_after_data_dependent_init" if all(inits) else "restart_before_data_dependent_init"] += 1
        if self.updated:
            self.probes["restart_after_parameter_update"] += 1
        if self.restarts >= 2:
            self.probes["second_generation_restart"] += 1
        if self.dtype64:
            self.probes["restart_in_float64"] += 1
        if self.torn:
            self.probes["restart_from_state_torn_by_interrupted_training_pass"] += 1
        log.add("restarted")

    def finish(self, log):
        """Real-subprocess restart: ship the newest incarnation's checkpoint to a fresh interpreter."""
        if not self.cfg.get("xproc"):
            return
        import base64
        import hashlib
        from sim import restart_server, prng

        torch = _T()
        src = self.inc[-1]
        was = src.training
        rng = prng.Stream(self.cfg["seed"], "xproc")
        probes = [{"fn": fn, "x": rng.seed30(), "rows": 3, "rng": 1 + i, "n": 2} for i, fn in enumerate(self.entry.calls())]
        src.eval()
        mine = restart_server.run_probes(self.entry, src, probes, self._dtype())
        again = restart_server.run_probes(self.entry, src, probes, self._dtype())
        src.train(was)
        keep = [i for i, (op_, a, b) in enumerate(zip(probes, mine, again))
                if a == b or op_["fn"] not in ("sample", "sample_and_log_prob")]
        probes, mine = [probes[i] for i in keep], [mine[i] for i in keep]
        self.save_bytes("xproc", src.state_dict())
        job = {"spec": self.cfg["spec"], "seed": int(rng.seed30()), "dtype64": self.dtype64,
               "ckpt": base64.b64encode(self.storage["xproc"]).decode(), "probes": probes}
        ans = restart_server.CLIENT.ask(job)
        self.faults["crash_restart_real_subprocess"] += 1
        if "error" in ans:
            raise Violation("state_dict_does_not_reload", "in a fresh interpreter: " + ans["error"])
        for op, a, b in zip(probes, mine, ans["results"]):
            self.comparisons += 1
            if a != b:
                raise Violation("reloaded_model_differs", "%s in a fresh interpreter: %s vs %s" % (op["fn"], a[0], b[0]) if a[0] != b[0]
                                else "%s in a fresh interpreter: different bits" % op["fn"])
        self.probes["real_subprocess_restart_compared"] += 1
        log.add("xproc", [r[0] for r in mine])

    def _lockstep(self, when):
        if len(self.inc) < 2:
            return
        first = _sd(self.inc[0])
        for i, r in enumerate(self.inc[1:], 1):
            self.comparisons += 1
            other = _sd(r)
            if other != first:
                keys = sorted(k for k in set(first) | set(other) if first.get(k) != other.get(k))
                raise Violation("state_diverges_after_reload", "after %s: incarnation %d differs in %s" % (when, i, keys[:6]))
