"""C10 - weight caching in linear transforms is transparent over every history.

System: one linear-family transform M with using_cache=True (bare or nested),
driven by a seeded history of the property's operations plus injected faults.
Reference: a twin U of the same spec with using_cache=False whose parameters
are refreshed from M's *parameters* (never its cache) after every operation,
and (bare case) M's own forward_no_cache / inverse_no_cache.
"""
import copy

import numpy as np

from sim import core, prng
from sim.core import Violation, HarnessError
from sim.world import World, grad_ctx

C_TOL = 64.0          # calibrated: see DESIGN 3.4 and evidence max_ratio
KAPPA_CAP = 1.0e4

OPKINDS = ["train", "eval", "use_cache", "forward", "inverse", "fwdbwd", "update",
           "load", "double", "float", "zero_grad", "deepcopy", "restart", "freeze", "unfreeze"]
READS = ["forward", "inverse", "fwdbwd"]
CHANGERS = ["load", "double", "float", "train", "deepcopy", "restart", "use_cache", "fwdbwd", "freeze", "unfreeze"]


def _T():
    return core.boot()


def build(cfg, seed, using_cache):
    """Real nflows objects from a JSON spec.  Returns (root, leaf)."""
    torch = _T()
    from nflows import transforms as T

    core.seed_global(seed)
    cls, D = cfg["cls"], cfg["D"]
    if cls == "LU":
        leaf = T.LULinear(D, using_cache=using_cache, identity_init=cfg["identity_init"])
    elif cls == "QR":
        leaf = T.QRLinear(D, num_householder=cfg["K"], using_cache=using_cache)
    elif cls == "SVD":
        leaf = T.SVDLinear(D, num_householder=cfg["K"], using_cache=using_cache,
                           identity_init=cfg["identity_init"])
    elif cls == "Naive":
        try:
            leaf = T.NaiveLinear(D, using_cache=using_cache)
        except Exception:
            # torch.qr is gone from this torch; that is C11/C20 territory, not C10
            leaf = T.NaiveLinear(D, orthogonal_initialization=False, using_cache=using_cache)
    elif cls == "Conv":
        leaf = T.OneByOneConvolution(D, using_cache=using_cache, identity_init=cfg["identity_init"])
    else:
        raise HarnessError("unknown class %r" % cls)
    perturb(leaf, seed + 7919, cfg["init_mag"])
    nest = cfg["nest"]
    if nest == "bare":
        root = leaf
    elif nest == "comp":
        root = T.CompositeTransform([T.ReversePermutation(D), leaf, T.RandomPermutation(D)])
    elif nest == "inv":
        root = T.InverseTransform(leaf)
    elif nest == "invcomp":
        root = T.InverseTransform(T.CompositeTransform([T.RandomPermutation(D), leaf]))
    else:
        raise HarnessError("unknown nest %r" % nest)
    return root, leaf


def perturb(module, seed, mag):
    torch = _T()
    with torch.no_grad():
        for i, (name, p) in enumerate(sorted(module.named_parameters())):
            noise = core.seeded(seed + 31 * i, tuple(p.shape), dtype=p.dtype, scale=mag)
            p.add_(noise)


def _np(x):
    return x.detach().to(_T().float64).cpu().numpy()


def factor_norms(cls, sd, K):
    """2-norm products of the factors the class is parameterised by, from the
    current parameter values in float64 (written from the parameterisation in
    the class docstrings; only used to scale error bounds)."""
    g = {k.split(".")[-1] if not k.startswith("orthogonal") else k: _np(v) for k, v in sd.items()}

    def sv(a):
        s = np.linalg.svd(a, compute_uv=False)
        return float(s.max()), float(s.min())

    ok = True
    if cls in ("LU", "Conv"):
        le, ue, ud = g["lower_entries"], g["upper_entries"], g["unconstrained_upper_diag"]
        D = ud.shape[0]
        L = np.eye(D)
        L[np.tril_indices(D, -1)] = le
        U = np.zeros((D, D))
        U[np.triu_indices(D, 1)] = ue
        diag = np.logaddexp(0.0, ud) + 1e-3
        U[np.diag_indices(D)] = diag
        (a, b), (c, d) = sv(L), sv(U)
        fw, iv = a * c, 1.0 / max(b, 1e-300) / max(d, 1e-300)
        sumlog = float(np.abs(np.log(diag)).sum())
        kdet = None
    elif cls == "QR":
        ue, ld = g["upper_entries"], g["log_upper_diag"]
        D = ld.shape[0]
        R = np.zeros((D, D))
        R[np.triu_indices(D, 1)] = ue
        R[np.diag_indices(D)] = np.exp(ld)
        a, b = sv(R)
        fw, iv = a, 1.0 / max(b, 1e-300)
        sumlog = float(np.abs(ld).sum())
        kdet = None
        q = [v for k, v in g.items() if k.endswith("q_vectors")]
        ok = all(float((qq ** 2).sum(-1).min()) > 1e-2 for qq in q)
    elif cls == "SVD":
        s = np.logaddexp(0.0, g["unconstrained_diagonal"]) + 1e-3
        fw, iv = float(s.max()), 1.0 / float(s.min())
        sumlog = float(np.abs(np.log(s)).sum())
        kdet = None
        q = [v for k, v in g.items() if k.endswith("q_vectors")]
        ok = all(float((qq ** 2).sum(-1).min()) > 1e-2 for qq in q)
    elif cls == "Naive":
        W = g["_weight"]
        a, b = sv(W)
        fw, iv = a, 1.0 / max(b, 1e-300)
        sumlog = float(np.abs(np.log(np.maximum(np.linalg.svd(W, compute_uv=False), 1e-300))).sum())
        kdet = fw * iv
    else:
        raise HarnessError(cls)
    kappa = fw * iv
    if kdet is None:
        # a cached log-abs-det may legitimately be computed from the assembled matrix (slogdet) rather than read off
        # the diagonal parameters: its rounding error then scales with the conditioning, for every class
        kdet = max(1.0, kappa)
    bias = float(np.abs(g["bias"]).max()) if "bias" in g else 0.0
    bias2 = float(np.sqrt((g["bias"] ** 2).sum())) if "bias" in g else 0.0
    finite = all(np.isfinite(v).all() for v in g.values() if v.dtype.kind == "f")
    return {"fw": fw, "iv": iv, "kappa": kappa, "sumlog": sumlog, "kdet": kdet,
            "bias": bias, "bias2": bias2, "ok": bool(ok and finite and np.isfinite(kappa) and kappa <= KAPPA_CAP)}


class C10World(World):
    prop = "C10"
    RULE = ("each run: seeded swarm configuration (class x features x Householder count x nesting x dtype x op weights x "
            "fault mode) and a state-aware seeded history over {train, eval, use_cache, forward, inverse, forward+backward, "
            "update (training mode only), load_state_dict, double, float, zero_grad, deepcopy, restart} with injected "
            "interrupts, rejected calls and failed/partial loads; after every read the cached transform is compared with an "
            "uncached twin holding the current parameters (values within a data-scaled bound, dtype, raised-or-not, input "
            "gradients). A run is non-trivial iff at least one comparison was made on the cache path (evaluation mode, cache "
            "on) after at least one state-changing operation; distinct = distinct (class, op-kind sequence) among those.")
    REAL = ["nflows (all classes, imported from the working tree of $VERIF_REPO)", "torch autograd / nn.Module / "
            "load_state_dict / _apply / optim.SGD / torch.save+load", "copy.deepcopy"]
    STUB = ["storage medium (in-memory bytes of torch.save output)", "process boundary (fresh instance under another seed)",
            "callers, data, loss (seeded synthetic)"]
    ASSUME = ["single-threaded CPU execution with one intra-op thread", "features <= 5, batch <= 4, histories <= 40 (120 thorough)",
              "numeric comparison skipped (and counted) when the product of factor condition numbers exceeds 1e4",
              "parameter mutation in evaluation mode is outside the property's quantifier and is not generated",
              "seeded sampling of histories, not exhaustive"]
    EXPECTED_PROBES = ["cache_hit_served", "hit_after_refill_following_train", "partial_cache_logabsdet_only",
                       "load_with_filled_cache", "dtype_change_with_filled_cache", "deepcopy_with_filled_cache",
                       "restart_with_filled_cache", "interrupt_on_cached_path", "backward_through_cache_hit",
                       "parameter_update_in_training", "failed_partial_load_with_filled_cache", "partial_load_with_filled_cache",
                       "submodule_only_load_with_filled_cache", "requires_grad_toggled_with_filled_cache", "cache_hit_with_frozen_parameters_under_grad",
                       "rejected_call_with_filled_cache", "successful_call_after_fault"]

    # ------------------------------------------------------------ config
    @classmethod
    def gen_config(cls, rng, tier):
        c = rng.pick(["LU", "QR", "SVD", "Naive", "Conv"])
        D = rng.pick([1, 2, 2, 3, 3, 4, 5])
        cfg = {"cls": c, "D": D, "K": 0, "identity_init": rng.chance(0.5), "hw": [1, 1]}
        if c == "Conv":
            cfg["D"] = D = rng.pick([1, 2, 3, 4])
            cfg["hw"] = [rng.pick([1, 2, 3]), rng.pick([1, 2])]
        # HouseholderSequence's initialiser needs K <= 2D (even K) / K <= 2D-1 (odd K)
        okK = lambda k: k >= 1 and (k <= 2 * D if k % 2 == 0 else k <= 2 * D - 1)
        if c == "QR":
            cfg["K"] = rng.pick([k for k in [1, 2, 3, D, D + 2, 2 * D] if okK(k)])
        if c == "SVD":
            cfg["K"] = rng.pick([k for k in [2, 4, 2 * ((D + 1) // 2), 2 * D] if okK(k)])
        cfg["nest"] = rng.weighted(["bare", "comp", "inv", "invcomp"], [5, 2, 1, 1])
        cfg["dtype"] = rng.weighted(["float32", "float64"], [4, 1])
        cfg["faulty"] = rng.chance(0.5)
        cfg["opcode"] = bool(tier == "thorough" and rng.chance(0.3))
        cfg["real_optim"] = bool(tier == "thorough")
        if tier == "thorough":
            cfg["length"] = rng.pick([4, 6, 8, 10, 12, 15, 20, 30, 40, 60, 120])
        else:
            cfg["length"] = rng.pick([3, 4, 5, 6, 7, 8, 9, 10, 12, 15, 15, 25, 40])
        w = {k: rng.pick([0, 1, 1, 3]) for k in OPKINDS}
        if w["forward"] + w["inverse"] + w["fwdbwd"] == 0:
            w[rng.pick(READS)] = 3
        w["eval"] = max(w["eval"], 1)
        cfg["weights"] = w
        cfg["init_seed"] = rng.seed30()
        cfg["init_mag"] = rng.pick([0.1, 0.3, 0.5])
        return cfg

    @classmethod
    def simplify_cfg(cls, cfg):
        out = []
        if cfg["nest"] != "bare":
            out.append(dict(cfg, nest="bare"))
        if cfg["cls"] != "Conv":
            for d in (1, 2):
                if d < cfg["D"]:
                    c2 = dict(cfg, D=d)
                    if cfg["cls"] == "SVD":
                        c2["K"] = 2
                    if cfg["cls"] == "QR":
                        c2["K"] = min(cfg["K"], 2)
                    out.append(c2)
        else:
            if cfg["hw"] != [1, 1]:
                out.append(dict(cfg, hw=[1, 1]))
        if cfg["dtype"] != "float32":
            out.append(dict(cfg, dtype="float32"))
        if cfg.get("faulty"):
            pass
        return out

    @classmethod
    def simplify_op(cls, op):
        out = []
        if op.get("interrupt"):
            o = dict(op); o.pop("interrupt"); out.append(o)
        if op.get("reject"):
            o = dict(op); o.pop("reject"); out.append(o)
        if op.get("rows", 1) > 1:
            out.append(dict(op, rows=1))
        if op.get("hw"):
            o = dict(op); o.pop("hw"); out.append(o)
        if op.get("grad") in ("no_grad", "inference"):
            out.append(dict(op, grad="grad"))
        if op.get("scale", 1.0) != 1.0:
            out.append(dict(op, scale=1.0))
        if op.get("op") == "update" and op.get("how") != "perturb":
            out.append(dict(op, how="perturb"))
        if op.get("op") == "load" and op.get("how") != "full":
            out.append(dict(op, how="full"))
        if op.get("target"):
            o = dict(op); o.pop("target"); out.append(o)
        if op.get("op") == "load" and op.get("assign"):
            o = dict(op); o.pop("assign"); out.append(o)
        if op.get("op") == "fwdbwd" and op.get("dir") == "inverse":
            out.append(dict(op, dir="forward"))
        return out

    # ------------------------------------------------------------ set-up
    def __init__(self, cfg):
        super().__init__(cfg)
        torch = _T()
        self.M, self.leaf = build(cfg, cfg["init_seed"], True)
        self.U, self.uleaf = build(cfg, cfg["init_seed"], False)
        if cfg["dtype"] == "float64":
            self.M.double()
            self.U.double()
        self.flip = cfg["nest"] in ("inv", "invcomp")
        self.want = True           # the mode the caller asked for last (a fresh module is in training mode)
        self.dirty = False
        self.changes = 0
        self.hit_after_change = 0
        self.after_fault = False
        self.ill = 0
        self.generation = 0
        self._norms = None
        self.sync()

    # ------------------------------------------------------------ twin
    def sync(self, full=True):
        """Refresh the twin from M's parameters/buffers and per-module mode."""
        torch = _T()
        if not full:
            for mm, um in zip(self.M.modules(), self.U.modules()):
                um.training = mm.training
            return
        # the twin is "the uncached transform holding the current parameters": mirror M tensor by tensor, dtype
        # included (an interrupted dtype conversion may leave mixed dtypes - then the uncached transform is torn in
        # exactly the same way)
        mp, up = list(self.M.parameters()), list(self.U.parameters())
        if len(mp) != len(up):
            raise HarnessError("cached and uncached instance of the same spec have different numbers of parameters")
        ub = dict(self.U.named_buffers())
        # buffers by name, where both instances have them (a cached instance may own extra, volatile buffers)
        pairs = list(zip(mp, up)) + [(v, ub[k]) for k, v in self.M.named_buffers() if k in ub]
        with torch.no_grad():
            # positional pairing: the two objects are instances of the same spec, so names (which a refactoring may map
            # through state-dict hooks) do not matter
            for v, t in pairs:
                if t.dtype != v.dtype or t.shape != v.shape:
                    t.data = v.detach().clone()
                else:
                    t.copy_(v)
                if isinstance(t, torch.nn.Parameter):
                    t.requires_grad_(v.requires_grad)
        for mm, um in zip(self.M.modules(), self.U.modules()):
            um.training = mm.training
        self._norms = None
        fl = [p.dtype for p in self.uleaf.parameters() if p.is_floating_point()]
        self._dtype = fl[0] if fl else torch.float32
        self._mixed = len(set(fl)) > 1

    def norms(self):
        if self._norms is None:
            try:
                self._norms = factor_norms(self.cfg["cls"], self.uleaf.state_dict(), self.cfg["K"])
            except (KeyError, ValueError, IndexError):
                self._norms = self._generic_norms()
            if self._mixed:
                self._norms["ok"] = False       # torn by an interrupted dtype conversion: no numeric judgement
        return self._norms

    def _generic_norms(self):
        """Parameter names unknown (a refactored parameterisation): scale the bounds by the assembled matrix from
        the public accessor instead of the factors (looser; the condition product then uses kappa(W)^2)."""
        torch = _T()
        try:
            with torch.no_grad():
                W = _np(copy.deepcopy(self.uleaf).double().weight())
            sv = np.linalg.svd(W, compute_uv=False)
            fw, iv = float(sv.max()), 1.0 / max(float(sv.min()), 1e-300)
            kappa = (fw * iv) ** 2
            self.probes["generic_norms_used"] += 1
            b = [v for k, v in self.uleaf.state_dict().items() if k.endswith("bias")]
            b2 = float(np.sqrt((_np(b[0]) ** 2).sum())) if b else 0.0
            return {"fw": fw * fw * iv, "iv": iv * iv * fw, "kappa": kappa, "sumlog": float(np.abs(np.log(sv)).sum()),
                    "kdet": max(1.0, kappa), "bias": b2, "bias2": b2, "ok": bool(np.isfinite(kappa) and kappa <= KAPPA_CAP)}
        except Exception:   # noqa: BLE001
            return {"fw": 1.0, "iv": 1.0, "kappa": 1.0, "sumlog": 0.0, "kdet": 1.0, "bias": 0.0, "bias2": 0.0, "ok": False}

    def dtype(self):
        return self._dtype

    # ------------------------------------------------------------ abstract state
    def _cache_flags(self):
        c = getattr(self.leaf, "cache", None)
        ts = [getattr(c, n, None) for n in ("weight", "inverse", "logabsdet")]
        flags = tuple(t is not None for t in ts)
        attached = any(getattr(t, "grad_fn", None) is not None for t in ts if t is not None)
        return flags, attached

    def abstract(self):
        flags, attached = self._cache_flags()
        return (bool(self.M.training), bool(self.leaf.training), bool(getattr(self.leaf, "using_cache", None)),
                flags[0], flags[1], flags[2], str(self.dtype()).replace("torch.", ""), attached, self.dirty)

    def nontrivial(self):
        return self.hit_after_change > 0

    def _mark_change(self):
        flags, _ = self._cache_flags()
        if any(flags):
            self.dirty = True
        self.changes += 1

    # ------------------------------------------------------------ op generation
    def gen_op(self, streams):
        sched, data, fault = streams["sched"], streams["data"], streams["fault"]
        w = self.cfg["weights"]
        st = self.abstract()
        training, filled, dirty = st[0], (st[3] or st[4] or st[5]), st[8]
        r = sched.random()
        if training and r < 0.5:
            kind = sched.weighted(["update", "eval"], [2, 1])
        elif filled and not dirty and r < 0.35:
            cand = [k for k in CHANGERS if w.get(k, 0) > 0] or CHANGERS
            kind = sched.pick(cand)
        elif dirty and r < 0.6:
            cand = [k for k in READS if w.get(k, 0) > 0] or READS
            kind = sched.pick(cand)
        else:
            kind = sched.weighted(OPKINDS, [w[k] for k in OPKINDS])
        op = {"op": kind}
        faulty = self.cfg["faulty"]
        if kind in ("forward", "inverse"):
            op.update(x=data.seed30(), rows=data.pick([1, 2, 3, 4]),
                      grad=sched.weighted(["no_grad", "grad", "inference"], [3, 2, 1]),
                      scale=data.pick([1.0, 1.0, 1.0, 0.01, 10.0]))
            self._vary_hw(op, data)
            if faulty and fault.chance(0.15):
                op["interrupt"] = fault.randint(1, 30 * (8 if self.cfg.get("opcode") else 1))
            elif faulty and fault.chance(0.08):
                op["reject"] = fault.pick(["features", "dtype"])
        elif kind == "fwdbwd":
            op.update(x=data.seed30(), rows=data.pick([1, 2, 3]), dir=sched.pick(["forward", "inverse"]))
            self._vary_hw(op, data)
        elif kind in ("train", "eval", "double", "float"):
            if kind in ("train", "eval") and self.cfg["nest"] != "bare" and sched.chance(0.3):
                op["target"] = "leaf"
            # no interruptions inside train()/eval()/double()/float(): the property's alphabet has completed mode
            # switches and conversions only, and "invalidate after the switch" is as good as "before" over those
        elif kind == "use_cache":
            op["on"] = sched.chance(0.6)
        elif kind == "update":
            op.update(how=sched.pick(["sgd", "perturb", "data_assign", "data_inplace", "copy", "replace_param"]), seed=data.seed30(),
                      mag=data.pick([0.1, 0.3, 0.3, 1.0, 1e-3, 1e-5]))     # also updates a fuzzy "did it change?" test would miss
            if op["how"] == "sgd" and self.cfg.get("real_optim"):
                op["real_optim"] = True
        elif kind == "load":
            how = "full"
            if faulty:
                how = fault.weighted(["full", "subset", "bad_key", "missing_strict"], [3, 2, 1, 1])
            op.update(seed=data.seed30(), mag=data.pick([0.3, 0.5, 1.0]), how=how)
            if how != "full":
                op["pick"] = fault.seed30()
            else:
                if sched.chance(0.25):
                    op["assign"] = True
                # no interruption inside load_state_dict either: torch raises load errors only after every hook ran,
                # so "invalidate after the copy" equals "before" over all completed (also failed) loads
        elif kind == "restart":
            op["seed"] = data.seed30()
        return op

    def _vary_hw(self, op, data):
        """1x1 convolution: the spatial size is the caller's per call, not part of the configuration, so one cache
        generation may serve images of different sizes (a cached quantity that silently depends on h*w is stale)."""
        if self.cfg["cls"] == "Conv" and data.chance(0.4):
            op["hw"] = [data.pick([1, 2, 3]), data.pick([1, 2, 3])]

    # ------------------------------------------------------------ inputs
    def make_x(self, op, dtype=None):
        D = self.cfg["D"]
        rows = op.get("rows", 2)
        dt = dtype or self.dtype()
        rej = op.get("reject")
        if rej == "features":
            D = D + 1
        if rej == "dtype":
            torch = _T()
            dt = torch.float64 if dt == torch.float32 else torch.float32
        if self.cfg["cls"] == "Conv":
            hw = op.get("hw") or self.cfg["hw"]
            shape = (rows, D, hw[0], hw[1])
        else:
            shape = (rows, D)
        return core.seeded(op["x"], shape, dtype=dt, scale=op.get("scale", 1.0))

    # ------------------------------------------------------------ calls
    def _invoke(self, root, direction, x, k=None):
        fn = (lambda: root(x)) if direction == "forward" else (lambda: root.inverse(x))
        return core.call_interruptible(fn, k, opcode=self.cfg.get("opcode", False))

    def _leaf_dir(self, direction):
        if not self.flip:
            return direction
        return "inverse" if direction == "forward" else "forward"

    def _row_norm(self, x):
        a = _np(x)
        if a.ndim == 4:
            a = np.transpose(a, (0, 2, 3, 1)).reshape(-1, a.shape[1])
        return np.sqrt((a ** 2).sum(-1))   # per leaf-row 2-norm

    def _bounds(self, leaf_dir, x, eps):
        """(per-leaf-row output bound, logabsdet bound per batch item, ok)."""
        nm = self.norms()
        n = self.cfg["D"] + self.cfg["K"] + 2
        rn = self._row_norm(x)
        if leaf_dir == "forward":
            ob = C_TOL * eps * n * (nm["fw"] * rn + nm["bias2"] + 1e-30)
        else:
            ob = C_TOL * eps * n * nm["kappa"] * nm["iv"] * (rn + nm["bias2"] + 1e-30)
        hw = int(x.shape[2] * x.shape[3]) if self.cfg["cls"] == "Conv" and x.dim() == 4 else 1
        lb = C_TOL * eps * n * nm["kdet"] * (1.0 + nm["sumlog"]) * hw
        return ob, lb, nm["ok"]

    def _rows(self, y):
        a = _np(y)
        if a.ndim == 4:
            a = np.transpose(a, (0, 2, 3, 1)).reshape(-1, a.shape[1])
        return a

    def _compare(self, what, direction, x, resM, resU):
        """Both calls succeeded: same dtype, same values, same log-abs-det."""
        torch = _T()
        (yM, lM), (yU, lU) = resM, resU
        if yM.dtype != yU.dtype or lM.dtype != lU.dtype:
            raise Violation("dtype_differs_from_uncached",
                            "%s: cached (%s,%s) vs uncached (%s,%s)" % (what, yM.dtype, lM.dtype, yU.dtype, lU.dtype))
        if tuple(yM.shape) != tuple(yU.shape) or tuple(lM.shape) != tuple(lU.shape):
            raise Violation("shape_differs_from_uncached", "%s: %s/%s vs %s/%s" % (
                what, tuple(yM.shape), tuple(lM.shape), tuple(yU.shape), tuple(lU.shape)))
        eps = float(torch.finfo(yU.dtype).eps)
        ob, lb, ok = self._bounds(self._leaf_dir(direction), x, eps)
        a, b = self._rows(yM), self._rows(yU)
        la, lbb = _np(lM), _np(lU)
        if not (ok and np.isfinite(b).all() and np.isfinite(lbb).all()):
            self.ill += 1
            self.probes["ill_conditioned_comparison_skipped"] += 1
            return
        self.comparisons += 1
        if not (np.isfinite(a).all() and np.isfinite(la).all()):
            raise Violation("stale_values", "%s: cached result not finite, uncached finite" % what)
        d = np.abs(a - b).max(-1)
        worst = float((d / ob).max())
        if worst > 1.0:
            i = int((d / ob).argmax())
            raise Violation("stale_values", "%s: |cached-uncached|=%.3e > bound %.3e (row %d, ratio %.3g)" % (
                what, d[i], ob[i], i, worst))
        self.ratio(worst, 1.0)
        dl = float(np.abs(la - lbb).max())
        if dl > lb:
            raise Violation("stale_logabsdet", "%s: |cached-uncached|=%.3e > bound %.3e" % (what, dl, lb))
        self.ratio(dl, lb)

    def _cached_path(self):
        return (not self.leaf.training) and bool(getattr(self.leaf, "using_cache", False))

    def _read(self, op, log):
        """forward / inverse / fwdbwd on M and on the twin, then judge."""
        torch = _T()
        kind = op["op"]
        direction = op.get("dir", kind) if kind == "fwdbwd" else kind
        gm = "grad" if kind == "fwdbwd" else op.get("grad", "grad")
        k = op.get("interrupt") if self.cfg["faulty"] else None
        x = self.make_x(op)
        xM, xU = x.clone(), x.clone()
        if kind == "fwdbwd":
            xM.requires_grad_(True)
            xU.requires_grad_(True)
        on_cache = self._cached_path()
        flags, attached = self._cache_flags()
        hit = on_cache and (flags[2] and (flags[0] if self._leaf_dir(direction) == "forward" else flags[1]))
        errM = errU = None
        resM = resU = None
        gM = gU = None
        fired = False
        with grad_ctx(gm):
            try:
                _, _, resU = self._invoke(self.U, direction, xU)
                if kind == "fwdbwd":
                    (resU[0].sum() + resU[1].sum()).backward()
                    gU = xU.grad
            except Exception as e:   # noqa: BLE001 - which exception is not C10's business
                errU = e
            try:
                fired, seen, resM = self._invoke(self.M, direction, xM, k)
                if kind == "fwdbwd" and not fired:
                    (resM[0].sum() + resM[1].sum()).backward()
                    gM = xM.grad
            except Exception as e:   # noqa: BLE001
                errM = e
            if k:
                if fired:
                    self.faults["interrupt_in_call"] += 1
                    if on_cache:
                        self.probes["interrupt_on_cached_path"] += 1
                else:
                    self.faults_missed["interrupt_in_call"] += 1
            if op.get("reject") and errU is not None:
                self.faults["rejected_call"] += 1
                if any(self._cache_flags()[0]):
                    self.probes["rejected_call_with_filled_cache"] += 1
            # ---------------- judge
            if fired:
                log.add("interrupted")
                self.after_fault = True
                return
            if op.get("reject"):
                # a caller error (wrong feature count / dtype): what each path does with it is not
                # C10's business; the fault only matters through the calls that follow it
                log.add("rejected_call", errM is not None, errU is not None)
                self.after_fault = True
                return
            if errM is not None and errU is None:
                raise Violation("raises_only_when_cached", "%s%s: %s: %s" % (
                    kind, "/" + direction if kind == "fwdbwd" else "", type(errM).__name__, str(errM)[:300]))
            if errM is None and errU is not None:
                # the cached path supporting more than the uncached one is not forbidden by the property
                self.probes["uncached_raised_cached_did_not"] += 1
                log.add("uncached_raised_only", type(errU).__name__)
                return
            if errM is not None and errU is not None:
                log.add("both_raised", type(errM).__name__)
                return
            if hit:
                self.probes["cache_hit_served"] += 1
                if gm == "grad" and not any(p.requires_grad for p in self.leaf.parameters()):
                    self.probes["cache_hit_with_frozen_parameters_under_grad"] += 1
                if self.generation_fill_after_train:
                    self.probes["hit_after_refill_following_train"] += 1
                if kind == "fwdbwd":
                    self.probes["backward_through_cache_hit"] += 1
            if on_cache and self.changes > 0:
                self.hit_after_change += 1
            if self.after_fault:
                self.probes["successful_call_after_fault"] += 1
                self.after_fault = False
            self._compare(kind, direction, x, resM, resU)
            log.add("ok", resM[0], resM[1])
            if kind == "fwdbwd":
                if (gM is None) != (gU is None):
                    raise Violation("input_grad_missing_when_cached", "x.grad None: cached=%s uncached=%s" % (gM is None, gU is None))
                nm = self.norms()
                if nm["ok"] and gM is not None:
                    eps = float(torch.finfo(gU.dtype).eps)
                    n = self.cfg["D"] + self.cfg["K"] + 2
                    sD = float(np.sqrt(self.cfg["D"]))
                    if self._leaf_dir(direction) == "forward":
                        gb = C_TOL * eps * n * nm["fw"] * sD
                    else:
                        gb = C_TOL * eps * n * nm["kappa"] * nm["iv"] * sD
                    a, b = _np(gM), _np(gU)
                    if np.isfinite(b).all():
                        dg = float(np.abs(a - b).max()) if np.isfinite(a).all() else float("inf")
                        if dg > gb:
                            raise Violation("stale_input_gradient", "|cached-uncached|=%.3e > bound %.3e" % (dg, gb))
                        self.ratio(dg, gb)
                        self.comparisons += 1
                log.add(gM)
            # bypass realisation of the oracle (bare 2-D classes): M's own *_no_cache
            if self.cfg["nest"] == "bare" and self.cfg["cls"] != "Conv":
                with torch.no_grad():
                    try:
                        byp = (self.leaf.forward_no_cache(x) if direction == "forward"
                               else self.leaf.inverse_no_cache(x))
                    except Exception as e:   # noqa: BLE001
                        byp = None
                if byp is not None:
                    self._compare(kind + "[vs *_no_cache]", direction, x, (resM[0], resM[1]), byp)

    # ------------------------------------------------------------ the step function
    generation_fill_after_train = False

    def step(self, op, log):
        torch = _T()
        kind = op["op"]
        faulty = self.cfg["faulty"]
        k = op.get("interrupt") if faulty else None
        if kind in READS:
            was = self._cache_flags()[0]
            self._read(op, log)
            now = self._cache_flags()[0]
            if any(now) and not any(was) and self.seen_train_after_fill:
                self.generation_fill_after_train = True
            if now[2] and not (now[0] or now[1]):
                self.probes["partial_cache_logabsdet_only"] += 1
            fl, att = self._cache_flags()
            if att:
                self.probes["graph_attached_cache_retained"] += 1
        elif kind in ("train", "eval", "double", "float", "zero_grad"):
            flags = self._cache_flags()[0]
            if kind in ("double", "float") and any(flags):
                self.probes["dtype_change_with_filled_cache"] += 1
            if kind == "train" and any(flags):
                self.seen_train_after_fill = True
            tM, tU = self.M, self.U
            if kind in ("train", "eval") and op.get("target") == "leaf":
                tM, tU = self.leaf, self.uleaf       # the mode switch is applied to the nested transform directly
            fnM = {"train": tM.train, "eval": tM.eval, "double": self.M.double,
                   "float": self.M.float, "zero_grad": self.M.zero_grad}[kind]
            fnU = {"train": tU.train, "eval": tU.eval, "double": self.U.double,
                   "float": self.U.float, "zero_grad": self.U.zero_grad}[kind]
            want_after = (kind == "train") if kind in ("train", "eval") else None
            errU = errM = None
            try:
                fnU()
            except Exception as e:   # noqa: BLE001
                errU = e
            fired = False
            try:
                fired, _, _ = core.call_interruptible(fnM, k, opcode=self.cfg.get("opcode", False))
            except Exception as e:   # noqa: BLE001
                errM = e
            if k:
                (self.faults if fired else self.faults_missed)["interrupt_in_mode_or_dtype_change"] += 1
                if fired:
                    self.after_fault = True
            if want_after is not None:
                # a mode switch that was cut short tells the caller nothing: fall back on what the flags say
                self.want = want_after if not fired else bool(self.M.training and self.leaf.training)
            if errM is not None and errU is None and not fired:
                raise Violation("raises_only_when_cached", "%s(): %s: %s" % (kind, type(errM).__name__, str(errM)[:300]))
            if kind in ("double", "float"):
                self._mark_change()
            log.add(kind, "interrupted" if fired else "done")
        elif kind == "use_cache":
            self.leaf.use_cache(bool(op["on"]))
            log.add("use_cache", bool(op["on"]))
        elif kind in ("freeze", "unfreeze"):
            # frozen parameters are the use-case the cache exists for: entries filled then carry no graph
            # and are retained also under grad mode
            self.M.requires_grad_(kind == "unfreeze")
            self.U.requires_grad_(kind == "unfreeze")
            if any(self._cache_flags()[0]):
                self.probes["requires_grad_toggled_with_filled_cache"] += 1
            log.add(kind)
        elif kind == "update":
            if not self.want:
                # the property restricts updates to training mode: the mode the caller last asked for (on the root or
                # on the transform itself) - if a mode switch failed to reach the transform that is the code's problem
                log.add("update_skipped_not_training")
            else:
                self._update(op)
                self._mark_change()
                self.probes["parameter_update_in_training"] += 1
                log.add("updated")
        elif kind == "load":
            self._load(op, log)
        elif kind == "deepcopy":
            flags = self._cache_flags()[0]
            try:
                self.M = copy.deepcopy(self.M)
                self.leaf = [m for m in self.M.modules() if type(m) is type(self.leaf)][0]
                if any(flags):
                    self.probes["deepcopy_with_filled_cache"] += 1
                log.add("deepcopied")
            except Exception as e:   # noqa: BLE001 - deepcopy is outside the property's alphabet: not judged
                self.probes["deepcopy_failed_not_judged"] += 1
                log.add("deepcopy_failed", type(e).__name__)
        elif kind == "restart":
            flags = self._cache_flags()[0]
            self.save_bytes("ckpt", self.M.state_dict())
            try:
                fresh, fleaf = build(self.cfg, int(op["seed"]), True)
                if self.dtype() == torch.float64:
                    fresh.double()
                fresh.load_state_dict(self.load_bytes("ckpt"), strict=True)
            except Exception as e:   # noqa: BLE001 - whether a checkpoint reloads is C15's business
                self.probes["restart_skipped_checkpoint_does_not_reload"] += 1
                log.add("restart_skipped", type(e).__name__)
                return
            self.M, self.leaf = fresh, fleaf
            self.want = True          # volatile: a fresh incarnation is in training mode
            self.faults["crash_restart"] += 1
            if any(flags):
                self.probes["restart_with_filled_cache"] += 1
            self.dirty = False
            self.changes += 1
            log.add("restarted")
        else:
            raise HarnessError("unknown op %r" % (op,))
        if kind not in READS:
            self.sync(full=kind not in ("train", "eval", "use_cache", "zero_grad", "freeze", "unfreeze"))
        if not any(self._cache_flags()[0]):
            self.dirty = False

    seen_train_after_fill = False

    # ------------------------------------------------------------ state changers
    def _update(self, op):
        torch = _T()
        how = op.get("how", "perturb")
        params = [p for p in self.M.parameters()]
        if how == "sgd" and not any(p.requires_grad for p in params):
            how = "perturb"          # frozen model: nothing for an optimiser to do; perturb instead
        if how == "sgd":
            x = self.make_x({"x": op["seed"], "rows": 3})
            lr = float(op["mag"]) * 0.3
            real = bool(op.get("real_optim"))
            # importing torch.optim.SGD pulls in torch._dynamo (4 s per interpreter): the real
            # optimiser is used in the thorough tier; quick applies the identical update
            # p.add_(grad, alpha=-lr) by hand
            opt = torch.optim.SGD(params, lr=lr, foreach=False) if real else None
            for p in params:
                p.grad = None
            try:
                with torch.enable_grad():
                    y, ld = self.M(x) if not self.flip else self.M.inverse(x)
                    loss = (y ** 2).mean() - ld.mean()
                    loss.backward()
            except Exception:   # noqa: BLE001 - e.g. a model torn by an interrupted dtype conversion: no step
                self.probes["sgd_step_skipped_forward_raised"] += 1
                return
            core.clip_grads(params, 1.0)
            if real:
                opt.step()
            else:
                with torch.no_grad():
                    for p in params:
                        if p.grad is not None:
                            p.add_(p.grad, alpha=-lr)
        else:
            with torch.no_grad():
                for i, (name, p) in enumerate(sorted(self.M.named_parameters())):
                    noise = core.seeded(op["seed"] + 31 * i, tuple(p.shape), dtype=p.dtype, scale=float(op["mag"]))
                    if how == "data_assign":
                        p.data = p.data + noise          # new storage, same Parameter object
                    elif how == "data_inplace":
                        p.data.add_(noise)               # in place through .data: p._version is NOT bumped
                    elif how == "copy":
                        p.copy_(p.detach() + noise)      # in place, version bumped
                    elif how == "replace_param":
                        pass
                    else:
                        p.add_(noise)
            if how == "replace_param":
                # what load_state_dict(assign=True) or manual surgery does: new Parameter objects
                for mod in self.M.modules():
                    for name, p in list(mod._parameters.items()):
                        if p is not None:
                            noise = core.seeded(op["seed"] + len(name), tuple(p.shape), dtype=p.dtype, scale=float(op["mag"]))
                            mod._parameters[name] = torch.nn.Parameter(p.detach() + noise, requires_grad=p.requires_grad)

    def _load(self, op, log):
        torch = _T()
        donor, _ = build(self.cfg, int(op["seed"]), False)
        perturb(donor, int(op["seed"]) + 13, float(op["mag"]))
        sd = {k: v.clone() for k, v in donor.state_dict().items()}
        how = op.get("how", "full") if self.cfg["faulty"] else "full"
        flags = self._cache_flags()[0]
        if any(flags):
            self.probes["load_with_filled_cache"] += 1
        if how == "full":
            kw = {"assign": True} if op.get("assign") else {}
            k = op.get("interrupt") if self.cfg["faulty"] else None
            errU = None
            try:
                self.U.load_state_dict({kk: vv.clone() for kk, vv in sd.items()}, strict=True, **kw)
            except Exception as e:   # noqa: BLE001
                errU = e
            try:
                fired, _, _ = core.call_interruptible(lambda: self.M.load_state_dict(sd, strict=True, **kw), k,
                                                      opcode=self.cfg.get("opcode", False))
            except Exception as e:   # noqa: BLE001
                if errU is None:
                    raise Violation("raises_only_when_cached", "load_state_dict: %s: %s" % (type(e).__name__, str(e)[:300]))
                fired = False
                log.add("load_raised_on_both")
            if k:
                (self.faults if fired else self.faults_missed)["interrupt_in_load"] += 1
                if fired:
                    self.after_fault = True
        elif how in ("subset", "missing_strict"):
            # a seeded, non-empty, proper-or-full subset of the keys: own parameters only, sub-module
            # parameters only (Householder vectors, permutation) or any mixture
            keys = sorted(sd)
            pick = prng.Stream(int(op.get("pick", op["seed"])), "subset")
            keep = [k for k in keys if pick.chance(0.5)] or [pick.pick(keys)]
            part = {k: sd[k] for k in keep}
            own = [k for k in keep if "." not in k.split("leaf.")[-1]]
            if how == "subset":
                self.M.load_state_dict(part, strict=False)
                self.faults["partial_load_strict_false"] += 1
            else:
                try:
                    self.M.load_state_dict(part, strict=True)
                    log.add("strict_subset_load_did_not_raise")
                except Exception:   # noqa: BLE001 - how a load is refused is not C10's business
                    self.faults["failed_partial_load"] += 1
                    self.after_fault = True
            if any(flags) and len(keep) < len(keys):
                self.probes["partial_load_with_filled_cache"] += 1
            if any(flags) and all("q_vectors" in k or "permutation" in k for k in keep):
                self.probes["submodule_only_load_with_filled_cache"] += 1
        elif how == "bad_key":
            keys = sorted(k for k in sd if sd[k].is_floating_point())
            pick = prng.Stream(int(op.get("pick", op["seed"])), "badkey")
            bad = pick.pick(keys)
            sd[bad] = torch.zeros(tuple(sd[bad].shape) + (2,))
            try:
                self.M.load_state_dict(sd, strict=True)
                log.add("bad_key_load_did_not_raise")
            except Exception:   # noqa: BLE001
                self.faults["failed_partial_load"] += 1
                if any(flags):
                    self.probes["failed_partial_load_with_filled_cache"] += 1
                self.after_fault = True
        self._mark_change()
        log.add("loaded", how)
