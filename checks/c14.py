"""C14 - normalisation layers follow their documented life-cycle over every history.

System: ActNorm / BatchNorm layers (bare or nested in real nflows containers and
flows) driven by a seeded history of {train, eval, forward, inverse, checkpoint,
crash+restart into a fresh incarnation (possibly from a stale checkpoint),
rejected calls}.  Every call that reaches a monitored layer is observed through
nn.Module hooks and judged in lock-step against an executable reference model of
the *documented* behaviour (float64 numpy), which specifies when state may change
and which relation the new state must satisfy.
"""
import numpy as np

from sim import core
from sim.core import Violation, HarnessError
from sim.world import World

C_TOL = 64.0
OPKINDS = ["train", "eval", "forward", "inverse", "checkpoint", "restart", "reject"]


def _T():
    return core.boot()


def _np(x):
    return x.detach().to(_T().float64).cpu().numpy()


def _sd_bytes(module):
    return {k: core.tbytes(v) for k, v in module.state_dict().items()}


def _state(module):
    """(trainable parameters, everything else the state dict holds) of the layer as raw bytes.  Non-persistent
    buffers are volatile by design (scratch space, last-batch diagnostics) and are not part of the life-cycle."""
    params = {k for k, _ in module.named_parameters(recurse=True)}
    sd = {k: v for k, v in module.state_dict().items() if hasattr(v, "dtype") and hasattr(v, "shape")}   # tensors only
    return ({k: core.tbytes(v) for k, v in sd.items() if k in params},
            {k: core.tbytes(v) for k, v in sd.items() if k not in params})


def _per_feature(a):
    """(N, F) view of a 2-D or 4-D array: statistics are per feature / channel."""
    if a.ndim == 4:
        return np.transpose(a, (0, 2, 3, 1)).reshape(-1, a.shape[1])
    return a


def _bcast(v, ndim):
    return v.reshape(1, -1, 1, 1) if ndim == 4 else v.reshape(1, -1)


# ---------------------------------------------------------------------------
# reference models
# ---------------------------------------------------------------------------

class RefActNorm:
    """Documented behaviour: y = exp(log_scale) * x + shift per feature/channel;
    the first training-mode forward (and nothing else) sets the parameters so
    that that batch comes out with zero mean and unit variance, and raises the
    persistent `initialized` flag; inverse is the algebraic inverse."""

    kind = "actnorm"

    def __init__(self, layer):
        self.adopt(layer)

    def adopt(self, layer):
        self.initialized = bool(layer.initialized)
        self.log_scale = _np(layer.log_scale).copy()
        self.shift = _np(layer.shift).copy()

    def snapshot(self):
        return (self.initialized, self.log_scale.copy(), self.shift.copy())

    def restore(self, snap):
        self.initialized, self.log_scale, self.shift = snap[0], snap[1].copy(), snap[2].copy()

    def may_write(self, training, direction):
        return direction == "forward" and training and not self.initialized

    def check_call(self, w, layer, training, direction, x, y, ld, wrote):
        eps = float(np.finfo(np.float32).eps)
        xa, ya, la = _np(x), _np(y), _np(ld)
        hw = xa.shape[2] * xa.shape[3] if xa.ndim == 4 else 1
        if self.may_write(training, direction):
            # the single initialising pass
            if not bool(layer.initialized):
                raise Violation("actnorm_not_initialised_by_first_training_forward",
                                "flag still False after a training-mode forward of an uninitialised layer")
            self.adopt(layer)
            yy = _per_feature(ya)
            xx = _per_feature(xa)
            n = yy.shape[0]
            sx = xx.std(0, ddof=1)
            amp = 1.0 + np.abs(xx).max(0) / np.maximum(sx, 1e-300)
            tol = 4 * C_TOL * eps * amp
            m = np.abs(yy.mean(0))
            if not np.isfinite(yy).all():
                raise Violation("actnorm_init_batch_not_normalised", "non-finite outputs on the initialising batch")
            if (m > tol).any():
                i = int((m / tol).argmax())
                raise Violation("actnorm_init_batch_not_normalised",
                                "mean of initialising batch, feature %d: %.3e > %.3e" % (i, m[i], tol[i]))
            w.ratio(float((m / tol).max()), 1.0, 'actnorm init mean')
            vb, vu = yy.var(0, ddof=0), yy.var(0, ddof=1)
            dv = np.minimum(np.abs(vb - 1.0), np.abs(vu - 1.0))
            # room for a stabilising epsilon of a few 1e-6, next to the std or inside the square root
            tol = tol + 1e-5 / np.maximum(sx, 1e-300) + 5e-6 / np.maximum(sx ** 2, 1e-300)
            if (dv > 2 * tol).any():
                i = int((dv / tol).argmax())
                raise Violation("actnorm_init_batch_not_normalised",
                                "variance of initialising batch, feature %d: biased %.6f unbiased %.6f (tol %.2e, n=%d)" % (
                                    i, vb[i], vu[i], 2 * tol[i], n))
            w.ratio(float((dv / (2 * tol)).max()), 1.0, 'actnorm init var')
            w.probes["actnorm_initialising_pass"] += 1
        # values, in every mode, from the (adopted) parameters
        scale = np.exp(self.log_scale)
        S, Sh = _bcast(scale, xa.ndim), _bcast(self.shift, xa.ndim)
        lsf = 1.0 + np.abs(_bcast(self.log_scale, xa.ndim))
        if direction == "forward":
            ref = S * xa + Sh
            bound = C_TOL * eps * (np.abs(S * xa) * lsf + np.abs(Sh)) + 1e-30
            refld = hw * self.log_scale.sum()
        else:
            ref = (xa - Sh) / S
            bound = C_TOL * eps * ((np.abs(xa) + np.abs(Sh)) / S) * lsf + 1e-30
            refld = -hw * self.log_scale.sum()
        ldb = C_TOL * eps * hw * (np.abs(self.log_scale).sum() + float(self.log_scale.size))
        _cmp(w, "actnorm " + direction, ya, ref, bound, la, refld, ldb)


class RefBatchNorm:
    """Documented behaviour: training-mode forward normalises with the batch
    mean/variance and moves the running statistics by the momentum rule
    running <- (1-m) running + m stat; evaluation mode uses the running
    statistics and writes nothing; the inverse exists only in evaluation mode."""

    kind = "batchnorm"

    def __init__(self, layer, momentum, eps):
        self.momentum, self.eps = float(momentum), float(eps)
        self.adopt(layer)

    def adopt(self, layer):
        self.rm = _np(layer.running_mean).copy()
        self.rv = _np(layer.running_var).copy()
        self.weight = _np(layer.weight).copy()
        self.bias = _np(layer.bias).copy()

    def snapshot(self):
        return (self.rm.copy(), self.rv.copy(), self.weight.copy(), self.bias.copy())

    def restore(self, snap):
        self.rm, self.rv, self.weight, self.bias = (s.copy() for s in snap)

    def may_write(self, training, direction):
        return direction == "forward" and training

    def check_call(self, w, layer, training, direction, x, y, ld, wrote):
        e32 = float(np.finfo(np.float32).eps)
        xa, ya, la = _np(x), _np(y), _np(ld)
        W, B = self.weight.reshape(1, -1), self.bias.reshape(1, -1)
        if direction == "forward" and training:
            n = xa.shape[0]
            mean = xa.mean(0)
            mx = np.abs(xa).max(0)
            cands = [("unbiased", xa.var(0, ddof=1)), ("biased", xa.var(0, ddof=0))]
            errs = []
            okest = None
            for name, var in cands:
                s = np.sqrt(var + self.eps)
                ref = W * ((xa - mean) / s) + B
                amp = 1.0 + (mx ** 2) / (var + self.eps)
                bound = C_TOL * e32 * ((np.abs(W) / s) * (np.abs(xa) + mx) * amp + np.abs(B)) + 1e-30
                refld = (np.log(self.weight) - 0.5 * np.log(var + self.eps)).sum()
                ldb = C_TOL * e32 * ((np.abs(np.log(self.weight)) + 0.5 * np.abs(np.log(var + self.eps)) + amp).sum())
                r = float((np.abs(ya - ref) / bound).max()) if np.isfinite(ya).all() else float("inf")
                rl = float(np.abs(la - refld).max() / ldb) if np.isfinite(la).all() else float("inf")
                errs.append((name, r, rl))
                if r <= 1.0 and rl <= 1.0 and okest is None:
                    okest = name
                    w.ratio(max(r, rl), 1.0, 'bn train y/ld %.3g %.3g' % (r, rl))
            w.comparisons += 1
            if okest is None:
                raise Violation("batchnorm_training_forward_not_batch_statistics",
                                "outputs/log-abs-det match neither estimator: %s" % (errs,))
            # momentum rule against the layer's own previous buffers
            m = self.momentum
            new_rm, new_rv = _np(layer.running_mean), _np(layer.running_var)
            exp_rm = (1 - m) * self.rm + m * mean
            tol_m = C_TOL * e32 * (np.abs(self.rm) + mx + 1e-6)
            d = np.abs(new_rm - exp_rm)
            if (d > tol_m).any() or not np.isfinite(new_rm).all():
                i = int((d / tol_m).argmax())
                raise Violation("batchnorm_running_mean_not_momentum_rule",
                                "feature %d: got %.6g expected (1-%.3g)*%.6g+%.3g*%.6g=%.6g" % (
                                    i, new_rm[i], m, self.rm[i], m, mean[i], exp_rm[i]))
            w.ratio(float((d / tol_m).max()), 1.0, 'bn running mean')
            tol_v = C_TOL * e32 * (np.abs(self.rv) + mx ** 2 + 1e-6)
            best = None
            for name, var in cands:
                exp_rv = (1 - m) * self.rv + m * var
                dv = np.abs(new_rv - exp_rv)
                r = float((dv / tol_v).max()) if np.isfinite(new_rv).all() else float("inf")
                best = r if best is None else min(best, r)
            if best > 1.0:
                raise Violation("batchnorm_running_var_not_momentum_rule",
                                "got %s from %s with batch var %s / %s, momentum %.3g" % (
                                    new_rv.tolist(), self.rv.tolist(), cands[0][1].tolist(), cands[1][1].tolist(), m))
            w.ratio(best, 1.0, 'bn running var')
            w.comparisons += 1
            self.adopt(layer)
            w.probes["batchnorm_training_forward"] += 1
            return
        s = np.sqrt(self.rv + self.eps).reshape(1, -1)
        RM = self.rm.reshape(1, -1)
        logs = (np.log(self.weight) - 0.5 * np.log(self.rv + self.eps))
        ldb = C_TOL * e32 * (np.abs(np.log(self.weight)) + 0.5 * np.abs(np.log(self.rv + self.eps)) + 1.0).sum()
        if direction == "forward":
            ref = W * ((xa - RM) / s) + B
            bound = C_TOL * e32 * ((np.abs(W) / s) * (np.abs(xa) + np.abs(RM)) + np.abs(B)) + 1e-30
            refld = logs.sum()
        else:
            ref = s * ((xa - B) / W) + RM
            bound = C_TOL * e32 * ((s / np.abs(W)) * (np.abs(xa) + np.abs(B)) + np.abs(RM)) + 1e-30
            refld = -logs.sum()
        _cmp(w, "batchnorm(eval) " + direction, ya, ref, bound, la, refld, ldb)


def _cmp(w, what, ya, ref, bound, la, refld, ldb):
    w.comparisons += 1
    if ya.shape != ref.shape:
        raise Violation("normalisation_output_shape", "%s: %s vs %s" % (what, ya.shape, ref.shape))
    if not np.isfinite(ref).all():
        w.probes["reference_not_finite_skipped"] += 1
        return
    if not np.isfinite(ya).all():
        raise Violation("normalisation_output_wrong", "%s: non-finite outputs where the reference is finite" % what)
    r = np.abs(ya - ref) / bound
    if (r > 1.0).any():
        i = np.unravel_index(int(r.argmax()), r.shape)
        raise Violation("normalisation_output_wrong", "%s: got %.6g expected %.6g (|d|=%.3e > %.3e) at %s" % (
            what, ya[i], ref[i], abs(ya[i] - ref[i]), bound[i], i))
    w.ratio(float(r.max()), 1.0, what + ' y')
    dl = float(np.abs(la - refld).max())
    if not (dl <= ldb):
        raise Violation("normalisation_logabsdet_wrong", "%s: got %.6g expected %.6g (|d|=%.3e > %.3e)" % (
            what, float(la.reshape(-1)[0]), refld, dl, ldb))
    w.ratio(dl, ldb, what + ' ld')


# ---------------------------------------------------------------------------
# models
# ---------------------------------------------------------------------------

NESTS = {
    "actnorm": ["bare", "bare", "bare", "comp", "inv", "glow", "two", "multiscale"],
    "batchnorm": ["bare", "bare", "bare", "comp", "inv", "two", "maf", "realnvp"],
}


def build(cfg, seed):
    torch = _T()
    from nflows import transforms as T
    from nflows import flows

    core.seed_global(seed)
    F = cfg["F"]
    nest = cfg["nest"]
    if cfg["layer"] == "actnorm":
        layer = T.ActNorm(F if nest != "glow" else 4 * F)
    else:
        layer = T.BatchNorm(F, eps=cfg["eps"], momentum=cfg["momentum"])
        with torch.no_grad():
            for i, (_, p) in enumerate(sorted(layer.named_parameters())):     # non-default affine parameters, by position
                p.add_(core.seeded(cfg["init_seed"] + 1 + i, tuple(p.shape), scale=cfg["affine_mag"]))
    if nest == "bare":
        root = layer
    elif nest == "comp":
        root = T.CompositeTransform([T.PointwiseAffineTransform(shift=0.5, scale=2.0), layer, T.ReversePermutation(F)])
    elif nest == "inv":
        root = T.InverseTransform(layer)
    elif nest == "two":
        other = T.BatchNorm(F, momentum=0.1) if cfg["layer"] == "actnorm" else T.ActNorm(F)
        lin = T.LULinear(F, identity_init=False)
        root = T.CompositeTransform([layer, lin, other] if cfg["order"] == 0 else [other, lin, layer])
    elif nest == "glow":
        root = T.CompositeTransform([T.SqueezeTransform(), layer, T.OneByOneConvolution(4 * F)])
    elif nest == "multiscale":
        # RealNVP-style multiscale stack on images: the second ActNorm only sees half of the channels
        h, w_ = cfg["hw"]
        root = T.MultiscaleCompositeTransform(num_transforms=2, split_dim=1)
        nxt = root.add_transform(T.CompositeTransform([layer, T.OneByOneConvolution(F)]), (F, h, w_))
        root.add_transform(T.CompositeTransform([T.ActNorm(nxt[0]), T.OneByOneConvolution(nxt[0])]), nxt)
    elif nest == "maf":
        root = flows.MaskedAutoregressiveFlow(features=F, hidden_features=6, num_layers=2, num_blocks_per_layer=1,
                                              use_random_permutations=True, batch_norm_between_layers=True)
    elif nest == "realnvp":
        root = flows.SimpleRealNVP(features=F, hidden_features=6, num_layers=2, num_blocks_per_layer=1,
                                   batch_norm_between_layers=True)
    else:
        raise HarnessError("nest %r" % nest)
    return root


def _install_class_wrappers():
    """In-process instrumentation of the imported classes (no edit to /repo): ActNorm/BatchNorm.forward and .inverse
    report (inputs, outputs) of monitored instances to their world."""
    from nflows.transforms.normalization import ActNorm, BatchNorm

    def _inputs(args, kwargs):
        return args[0] if args else kwargs.get("inputs")

    for cls in (ActNorm, BatchNorm):
        if cls.__dict__.get("_c14_wrapped"):
            continue
        orig_forward, orig_inverse = cls.forward, cls.inverse

        def forward(self, *args, _orig=orig_forward, **kwargs):
            out = _orig(self, *args, **kwargs)
            world = self.__dict__.get("_c14_world")
            if world is not None:
                world._observe_guarded(self.__dict__["_c14_idx"], "forward", _inputs(args, kwargs), out)
            return out

        def inverse(self, *args, _orig=orig_inverse, **kwargs):
            world = self.__dict__.get("_c14_world")
            try:
                out = _orig(self, *args, **kwargs)
            except Exception as e:   # noqa: BLE001
                if world is not None:
                    world._observe_inverse_raised(self.__dict__["_c14_idx"], e)
                raise
            if world is not None:
                world._observe_guarded(self.__dict__["_c14_idx"], "inverse", _inputs(args, kwargs), out)
            return out

        cls.forward, cls.inverse = forward, inverse
        cls._c14_wrapped = True


class C14World(World):
    prop = "C14"
    RULE = ("each run: seeded swarm configuration (ActNorm on 2-D/4-D batches or BatchNorm with momentum in {0.01,0.1,0.5,0.9}, "
            "eps in {1e-5,1e-3}, non-default affine parameters; bare or nested in Composite / Inverse / Glow-style image stack / "
            "two-layer stack / MaskedAutoregressiveFlow / SimpleRealNVP) and a state-aware seeded history over {train, eval, "
            "forward(batch), inverse(batch), checkpoint, crash+restart into a fresh incarnation from the latest or a stale "
            "checkpoint, rejected calls}; every call reaching a monitored layer is judged against the executable reference "
            "model (when state may change - trainable parameters only on ActNorm's single initialising pass, buffers only in "
            "training-mode forward passes, nothing otherwise -, initialisation statistics, momentum rule, output formulas) and "
            "between calls the layer's own parameters and buffers must stay bit-identical. Non-trivial iff the run has at least one "
            "training-mode forward through a monitored layer followed by at least one later judged call; distinct = distinct "
            "(model label, op-kind sequence) among those.")
    REAL = ["nflows ActNorm, BatchNorm and every container/flow around them (working tree of $VERIF_REPO)",
            "torch nn.Module hooks, state_dict/load_state_dict, torch.save/torch.load"]
    STUB = ["storage medium (in-memory bytes)", "process boundary (fresh instance under another seed)", "callers and data (seeded synthetic batches)"]
    ASSUME = ["batches have >= 2 rows (4-D ActNorm: also one image with H*W >= 4) and per-feature |mean|/std <= 30 (zero mean / unit variance is unsatisfiable for constant or single-sample features)",
              "either variance estimator (biased/unbiased) is accepted wherever the documentation leaves it open",
              "float32, CPU, one thread; no interrupts are injected for this property (a torn in-place statistics update is behaviour the property does not describe)"]
    EXPECTED_PROBES = ["actnorm_initialising_pass", "batchnorm_training_forward", "eval_forward_before_init",
                       "inverse_in_training_before_init", "restart_between_init_and_next_training_forward",
                       "stale_checkpoint_restart", "uninitialised_checkpoint_restored_after_init",
                       "five_consecutive_training_forwards", "rejected_call_while_uninitialised",
                       "layer_forward_reached_through_inverse_transform", "batchnorm_inverse_refused_in_training",
                       "layer_mode_differs_from_container"]

    # ------------------------------------------------------------ config
    @classmethod
    def gen_config(cls, rng, tier):
        layer = rng.pick(["actnorm", "batchnorm"])
        nest = rng.pick(NESTS[layer])
        F = rng.pick([1, 2, 2, 3, 4])
        if nest in ("maf", "realnvp", "two"):
            F = max(F, 2)
        if nest == "multiscale":
            F = 4
        cfg = {"layer": layer, "nest": nest, "F": F, "label": "%s/%s" % (layer, nest)}
        cfg["dims"] = 4 if (nest in ("glow", "multiscale") or (layer == "actnorm" and nest in ("bare", "comp", "inv") and rng.chance(0.4))) else 2
        cfg["hw"] = [rng.pick([1, 2, 3]), rng.pick([1, 2])] if nest != "glow" else [2 * rng.pick([1, 2]), 2]
        cfg["momentum"] = rng.pick([0.01, 0.1, 0.1, 0.5, 0.9])
        cfg["eps"] = rng.pick([1e-5, 1e-3])
        cfg["affine_mag"] = rng.pick([0.0, 0.3, 1.0])
        cfg["order"] = rng.pick([0, 1])
        cfg["init_seed"] = rng.seed30()
        cfg["length"] = rng.pick([3, 4, 5, 6, 8, 10, 12, 15, 20, 30] if tier == "quick" else [5, 8, 12, 20, 40, 80])
        w = {k: rng.pick([0, 1, 1, 3]) for k in OPKINDS}
        w["forward"] = max(w["forward"], 1)
        cfg["weights"] = w
        cfg["faulty"] = rng.chance(0.6)
        return cfg

    @classmethod
    def simplify_cfg(cls, cfg):
        out = []
        if cfg["nest"] not in ("bare",):
            if cfg["nest"] in ("comp", "inv", "two", "multiscale"):
                out.append(dict(cfg, nest="bare", label="%s/bare" % cfg["layer"]))
        if cfg["dims"] == 4 and cfg["nest"] not in ("glow", "multiscale"):
            out.append(dict(cfg, dims=2))
        if cfg["F"] > 2 or (cfg["F"] > 1 and cfg["nest"] not in ("maf", "realnvp", "two")):
            out.append(dict(cfg, F=cfg["F"] - 1))
        if cfg["affine_mag"]:
            out.append(dict(cfg, affine_mag=0.0))
        return out

    @classmethod
    def simplify_op(cls, op):
        out = []
        if op.get("rows", 2) > 2:
            out.append(dict(op, rows=2))
        if op.get("eval_first"):
            o = dict(op); o.pop("eval_first"); out.append(o)
        if op.get("loc", 0.0) != 0.0:
            out.append(dict(op, loc=0.0))
        if op.get("scale", 1.0) != 1.0:
            out.append(dict(op, scale=1.0))
        if op.get("target") is not None:
            o = dict(op); o.pop("target"); out.append(o)
        if op.get("op") == "restart" and op.get("source") == "old":
            out.append(dict(op, source="now"))
        return out

    # ------------------------------------------------------------ set-up
    def __init__(self, cfg):
        super().__init__(cfg)
        _install_class_wrappers()
        self.root = build(cfg, cfg["init_seed"])
        self.mode = True           # a freshly constructed module is in training mode
        self.lmode = []            # expected mode per monitored layer (mode switches may target a layer directly)
        self.monitored = []        # [(layer, ref)]
        self.expected = []         # per layer: state_dict bytes after the last permitted write
        self.trained = 0           # training-mode forwards that reached a monitored layer
        self.judged_after_train = 0
        self.consecutive_train_fwd = 0
        self.await_next_train = False   # an ActNorm initialised and has not seen another training forward yet
        self.restarts = 0
        self.old = None            # stale checkpoint: (bytes name, [ref snapshots], [expected bytes])
        self._attach(fresh_model=True)

    def _is_flow(self):
        return self.cfg["nest"] in ("maf", "realnvp")

    def _attach(self, fresh_model=False):
        from nflows.transforms.normalization import ActNorm, BatchNorm

        self.monitored, self.expected = [], []
        self.lmode = []
        for mod in self.root.modules():
            if isinstance(mod, ActNorm):
                ref = RefActNorm(mod)
                if fresh_model:
                    ref.initialized = False      # "initialises on its first training-mode forward pass": never born initialised
            elif isinstance(mod, BatchNorm):
                main = self.cfg["layer"] == "batchnorm" and self.cfg["nest"] not in ("maf", "realnvp") and \
                    (self.cfg["nest"] != "two" or mod is self._main_layer())
                # the layer this run constructed itself is held to the constructor arguments of the configuration; a
                # layer some flow built internally to the arguments that flow chose
                ref = RefBatchNorm(mod, self.cfg["momentum"] if main else float(getattr(mod, "momentum", 0.1)),
                                   self.cfg["eps"] if main else float(getattr(mod, "eps", 1e-5)))
            else:
                continue
            idx = len(self.monitored)
            self.monitored.append((mod, ref))
            self.lmode.append(self.mode)
            self.expected.append(_state(mod))
            self._hook(mod, ref, idx)

    def _main_layer(self):
        from nflows.transforms.normalization import ActNorm, BatchNorm

        want = ActNorm if self.cfg["layer"] == "actnorm" else BatchNorm
        for mod in self.root.modules():
            if isinstance(mod, want):
                return mod
        return None

    def _hook(self, mod, ref, idx):
        # the layer classes are wrapped once per process (see _install_class_wrappers); the wrappers dispatch to the
        # world an instance belongs to. Wrapping the class - before any model is built - also covers containers that
        # bind child.forward / child.inverse at construction time.
        mod.__dict__["_c14_world"] = self
        mod.__dict__["_c14_idx"] = idx

    # ------------------------------------------------------------ observation of layer calls
    def _observe_guarded(self, idx, direction, x, out):
        """Errors of the observation code itself must never look like a verdict about nflows."""
        try:
            self._observe(idx, direction, x, out)
        except (Violation, HarnessError):
            raise
        except Exception as e:   # noqa: BLE001
            import traceback

            raise HarnessError("observer failed: %s" % traceback.format_exc()[-800:]) from e

    def _observe(self, idx, direction, x, out):
        torch = _T()
        layer, ref = self.monitored[idx]
        training = self.lmode[idx]
        y, ld = out
        legal_rank = (2, 4) if ref.kind == "actnorm" else (2,)
        # a single image holding >= 4 samples per channel is a batch like any other for the 4-D ActNorm
        single = (isinstance(x, torch.Tensor) and x.dim() in legal_rank and x.shape[0] < 2
                  and not (x.dim() == 4 and x.shape[0] == 1 and x.shape[2] * x.shape[3] >= 4))
        if not isinstance(x, torch.Tensor) or x.dim() not in legal_rank or single and training:
            # outside the property's quantifier (2-D / image batches): a call the layer chose to accept is not judged;
            # whatever it did to the state is adopted
            self.probes["call_outside_quantifier_not_judged"] += 1
            before, after = self.expected[idx], _state(layer)
            train_fwd = direction == "forward" and training
            if ref.kind == "actnorm" and ref.initialized and (after[0] != before[0] or not bool(getattr(layer, "initialized", True))):
                raise Violation("state_written_when_forbidden", "a %s call on a rank-%s input changed the parameters or the "
                                "flag of an already initialised ActNorm" % (direction, getattr(x, "dim", lambda: "?")()))
            if not train_fwd and after != before:
                raise Violation("state_written_when_forbidden", "a %s call outside training-mode forward changed the state" % direction)
            if ref.kind == "batchnorm" and after[0] != before[0]:
                raise Violation("state_written_when_forbidden", "a call changed BatchNorm's trainable parameters")
            ref.adopt(layer)       # what such a call does beyond that (e.g. initialise an uninitialised layer) is adopted
            self.expected[idx] = after
            return
        before = self.expected[idx]
        after = _state(layer)
        init_pass = ref.may_write(training, direction) and ref.kind == "actnorm"
        # what may change: trainable parameters only on ActNorm's single initialising pass; buffers (statistics,
        # counters, the flag) only in training-mode forward passes; nothing in evaluation mode or in inverse calls
        may_params = init_pass
        may_buffers = direction == "forward" and training
        allowed = ref.may_write(training, direction)
        if ref.kind == "batchnorm" and direction == "inverse" and bool(layer.training):
            # "offers its inverse only there": judged by the layer's own flag at the time of the call (a flow may run
            # its layers in evaluation mode while sampling and restore them); whether mode switches reach the layer is
            # judged through the forward passes
            raise Violation("batchnorm_inverse_offered_in_training", "inverse returned a result while the layer was in training mode")
        bad = sorted(k for k in set(after[0]) | set(before[0]) if after[0].get(k) != before[0].get(k)) if not may_params else []
        bad += sorted(k for k in set(after[1]) | set(before[1]) if after[1].get(k) != before[1].get(k)) if not may_buffers else []
        if bad:
            raise Violation("state_written_when_forbidden", "%s %s (training=%s, initialized=%s) changed %s" % (
                ref.kind, direction, training, getattr(ref, "initialized", None), bad))
        wrote = after != before
        if ref.kind == "actnorm":
            if direction == "forward" and not training and not ref.initialized:
                self.probes["eval_forward_before_init"] += 1
            if direction == "inverse" and training and not ref.initialized:
                self.probes["inverse_in_training_before_init"] += 1
        if self.trained > 0:
            self.judged_after_train += 1
        ref.check_call(self, layer, training, direction, x, y, ld, wrote)
        self.expected[idx] = _state(layer)
        if direction == "forward" and training:
            self.trained += 1
            self._train_fwd_this_op = True
            if ref.kind == "actnorm":
                self.await_next_train = bool(allowed)
        if direction == "forward" and self.cfg["nest"] == "inv":
            self.probes["layer_forward_reached_through_inverse_transform"] += 1

    def _observe_inverse_raised(self, idx, err):
        layer, ref = self.monitored[idx]
        if ref.kind == "batchnorm" and self.lmode[idx]:
            self.probes["batchnorm_inverse_refused_in_training"] += 1
            if _state(layer) != self.expected[idx]:
                raise Violation("state_written_when_forbidden", "refused inverse changed the state")
            return
        self._unexpected_inverse_error = err

    # ------------------------------------------------------------ abstract state
    def abstract(self):
        inits = tuple(bool(getattr(l, "initialized", True)) for l, r in self.monitored if r.kind == "actnorm")
        return (self.mode, tuple(self.lmode), inits, min(self.trained, 2), min(self.restarts, 2), self.old is not None)

    def nontrivial(self):
        return self.trained > 0 and self.judged_after_train > 0

    # ------------------------------------------------------------ op generation
    def gen_op(self, streams):
        sched, data, fault = streams["sched"], streams["data"], streams["fault"]
        w = dict(self.cfg["weights"])
        if not self.cfg["faulty"]:
            w["reject"] = 0
        r = sched.random()
        last = getattr(self, "_last_kind", None)
        if last == "forward" and (self.mode or any(self.lmode)) and r < 0.35:
            kind = sched.pick(["restart", "eval", "checkpoint", "forward", "restart"])
        elif last == "restart" and r < 0.6:
            kind = sched.weighted(["forward", "eval", "inverse"], [4, 1, 1])
        elif last in ("train", "eval") and r < 0.5:
            kind = sched.weighted(["forward", "inverse"], [3, 1])
        else:
            kind = sched.weighted(OPKINDS, [w[k] for k in OPKINDS])
        op = {"op": kind}
        if kind in ("train", "eval") and self.cfg["nest"] != "bare" and sched.chance(0.3):
            op["target"] = sched.randrange(4)
        if kind in ("forward", "inverse"):
            # a single image is a legitimate batch for the 4-D ActNorm as long as it holds several samples per channel
            # (B*H*W >= 4 at the layer); single-row 2-D batches stay outside the assumption (their std is undefined)
            single_ok = (self.cfg["layer"] == "actnorm" and self.cfg["dims"] == 4 and self.cfg["nest"] in ("bare", "comp", "inv")
                         and self.cfg["hw"][0] * self.cfg["hw"][1] >= 4)
            op.update(x=data.seed30(), rows=data.pick([1, 1, 2, 3, 4, 6, 8] if single_ok else [2, 2, 3, 4, 6, 8]),
                      loc=data.pick([0.0, 0.0, 1.0, -3.0, 10.0]),
                      scale=data.pick([1.0, 1.0, 0.1, 5.0]))
        elif kind == "restart":
            op.update(seed=data.seed30(), source=sched.weighted(["now", "old"], [3, 1]))
            if sched.chance(0.3):
                op["eval_first"] = True      # the new incarnation is switched to evaluation mode *before* the load
        elif kind == "reject":
            op.update(x=data.seed30(), how=fault.pick(["rank3", "rank1"]), dir=fault.pick(["forward", "inverse"]))
        self._last_kind = kind
        return op

    # ------------------------------------------------------------ inputs
    def make_x(self, op, direction="forward"):
        F = self.cfg["F"]
        rows = int(op.get("rows", 2))
        h, w_ = self.cfg["hw"]
        if self.cfg["nest"] == "glow" and direction == "inverse":
            F, h, w_ = 4 * F, h // 2, w_ // 2
        shape = (rows, F, h, w_) if self.cfg["dims"] == 4 else (rows, F)
        if self.cfg["nest"] == "multiscale" and direction == "inverse":
            # the multiscale inverse takes the flattened concatenation of all scales
            flat = core.seeded(op["x"], (rows, F * h * w_)) * float(op.get("scale", 1.0)) + float(op.get("loc", 0.0)) * 0.1
            return flat
        x = core.seeded(op["x"], shape)
        # per-feature location / scale, |loc| / scale <= 30
        sc = float(op.get("scale", 1.0))
        loc = float(op.get("loc", 0.0))
        if sc > 0 and abs(loc) / sc > 30:
            loc = 30.0 * sc * (1 if loc > 0 else -1)
        feat = core.seeded(op["x"] + 1, (F,), dist="uniform")
        fs = (0.5 + feat) * sc
        fl = (feat - 0.5) * 2 * loc
        if self.cfg["dims"] == 4:
            return x * fs.view(1, -1, 1, 1) + fl.view(1, -1, 1, 1)
        return x * fs.view(1, -1) + fl.view(1, -1)

    # ------------------------------------------------------------ step
    def step(self, op, log):
        torch = _T()
        kind = op["op"]
        self._train_fwd_this_op = False
        if kind in ("train", "eval"):
            flag = kind == "train"
            tgt = op.get("target", "root")
            if tgt == "root" or not self.monitored:
                (self.root.train if flag else self.root.eval)()
                self.mode = flag
                self.lmode = [flag] * len(self.monitored)
            else:
                # the mode switch is applied to one nested layer directly (e.g. to freeze it); a later switch on
                # the root must still reach it
                i = int(tgt) % len(self.monitored)
                layer = self.monitored[i][0]
                (layer.train if flag else layer.eval)()
                self.lmode[i] = flag
                if self.lmode[i] != self.mode:
                    self.probes["layer_mode_differs_from_container"] += 1
            log.add(kind, str(tgt))
        elif kind in ("forward", "inverse"):
            x = self.make_x(op, kind)
            self._call(kind, x, log, judged=True, seed=op["x"])
        elif kind == "reject":
            x = core.seeded(op["x"], {"rank3": (2, self.cfg["F"], 2), "rank1": (self.cfg["F"],)}[op["how"]])
            uninit = any(r.kind == "actnorm" and not r.initialized for _, r in self.monitored)
            raised = self._call(op["dir"], x, log, judged=False, seed=op["x"])
            if raised:
                self.faults["rejected_call"] += 1
                if uninit and any(self.lmode):
                    self.probes["rejected_call_while_uninitialised"] += 1
        elif kind == "checkpoint":
            self._save("old")
            self.old = ([r.snapshot() for _, r in self.monitored], list(self.expected))
            log.add("checkpoint")
        elif kind == "restart":
            self._restart(op, log)
        else:
            raise HarnessError("unknown op %r" % (op,))
        if self._train_fwd_this_op:
            self.consecutive_train_fwd += 1
            if self.consecutive_train_fwd == 5:
                self.probes["five_consecutive_training_forwards"] += 1
        elif kind != "checkpoint":
            self.consecutive_train_fwd = 0
        self._lockstep("after %s" % kind)

    def _call(self, direction, x, log, judged, seed=0):
        """Drive the root; the hooks judge what reaches the layers."""
        torch = _T()
        self._unexpected_inverse_error = None
        try:
            with torch.no_grad():
                if self._is_flow():
                    if direction == "forward":
                        out = self.root.log_prob(x)
                        res = (out,)
                    else:
                        core.seed_global(seed)
                        out = self.root.sample(int(x.shape[0]))
                        res = (out,)
                else:
                    res = self.root(x) if direction == "forward" else self.root.inverse(x)
        except (Violation, HarnessError):
            raise
        except Exception as e:   # noqa: BLE001
            log.add("raised", type(e).__name__)
            if judged and self._failure_is_judged(direction):
                raise Violation("normalisation_call_failed", "%s raised %s: %s" % (direction, type(e).__name__, str(e)[:200]))
            return True
        if self._is_flow() and direction == "inverse":
            log.add("ok", "sampled")      # sampled values stay out of the event log: a library may sample from a generator of its own
        else:
            log.add("ok", *res)
        return False

    def _failure_is_judged(self, direction):
        """The property obliges two kinds of call to succeed: a training-mode forward pass through the layers (that
        is where ActNorm initialises and BatchNorm uses batch statistics), and BatchNorm's inverse in evaluation mode
        once it has statistics.  What a layer does with anything else (evaluation before initialisation, an inverse
        before initialisation, evaluation before any training batch ...) is its own business."""
        layer_dir = direction
        if self.cfg["nest"] == "inv":
            layer_dir = "inverse" if direction == "forward" else "forward"
        if layer_dir == "forward":
            return bool(self.mode) and all(self.lmode)
        if not self.mode and not any(self.lmode) and self.trained > 0 and self.restarts == 0:
            return all(r.kind != "actnorm" or r.initialized for _, r in self.monitored)
        return False

    def _refusal_expected(self, direction):
        """A judged call may legitimately raise only when it needs the inverse of a
        BatchNorm layer while in training mode."""
        has_bn = any(r.kind == "batchnorm" and self.lmode[i] for i, (_, r) in enumerate(self.monitored))
        if not has_bn:
            return False
        if self._is_flow():
            return direction == "inverse"
        if self.cfg["nest"] == "inv":
            return direction == "forward"
        return direction == "inverse"

    def _save(self, name):
        self.save_bytes(name, self.root.state_dict())

    def _restart(self, op, log):
        source = op.get("source", "now")
        if source == "old" and self.old is None:
            source = "now"
        if source == "now":
            self._save("now")
            snaps = [r.snapshot() for _, r in self.monitored]
            exp = list(self.expected)
        else:
            snaps, exp = self.old
            self.probes["stale_checkpoint_restart"] += 1
            was_init = [r.initialized for _, r in self.monitored if r.kind == "actnorm"]
            then_init = [s[0] for (l, r), s in zip(self.monitored, snaps) if r.kind == "actnorm"]
            if any(a and not b for a, b in zip(was_init, then_init)):
                self.probes["uninitialised_checkpoint_restored_after_init"] += 1
        if self.await_next_train:
            self.probes["restart_between_init_and_next_training_forward"] += 1
            self.await_next_train = False
        try:
            fresh = build(self.cfg, int(op["seed"]))
        except Exception as e:   # noqa: BLE001 - a constructor that refuses under this seed: no restart
            self.probes["restart_skipped_constructor_refused"] += 1
            log.add("restart_skipped", type(e).__name__)
            return
        eval_first = bool(op.get("eval_first"))
        if eval_first:
            # "save+load into a fresh instance": nothing says the fresh instance is still in training mode when it is
            # loaded - a served model is typically built, put in evaluation mode and then given its weights
            fresh.eval()
            self.probes["restart_loaded_in_evaluation_mode"] += 1
        try:
            fresh.load_state_dict(self.load_bytes(source), strict=True)
        except Exception as e:   # noqa: BLE001
            raise Violation("state_dict_does_not_reload", "%s: %s" % (type(e).__name__, str(e)[:300]))
        for old_layer, _ in self.monitored:
            old_layer.__dict__.pop("_c14_world", None)
        self.root = fresh
        self.mode = not eval_first     # volatile: a fresh incarnation is in training mode unless switched before the load
        self._attach()
        for (layer, ref), s in zip(self.monitored, snaps):
            ref.restore(s)
        self.expected = list(exp)
        self.restarts += 1
        self.faults["crash_restart"] += 1
        self.consecutive_train_fwd = 0
        log.add("restarted", source)

    def _lockstep(self, when):
        """Invariants 1 and 2: flag equality and bit-identical state outside permitted writes."""
        for idx, (layer, ref) in enumerate(self.monitored):
            now = _state(layer)
            if now != self.expected[idx]:
                exp = self.expected[idx]
                changed = sorted(k for j in (0, 1) for k in set(now[j]) | set(exp[j]) if now[j].get(k) != exp[j].get(k))
                raise Violation("state_differs_from_reference", "%s %s: keys %s" % (ref.kind, when, changed))
            if ref.kind == "actnorm":
                flag = getattr(layer, "initialized", None)
                if flag is None or bool(flag) != ref.initialized:
                    raise Violation("initialized_flag_differs_from_reference", "%s: layer %s reference %s" % (
                        when, None if flag is None else bool(flag), ref.initialized))
