"""Registry of per-property worlds."""


def _registry():
    reg = {}
    from .c10 import C10World
    reg["C10"] = C10World
    for mod, name, pid in (("c14", "C14World", "C14"), ("c13", "C13World", "C13"), ("c15", "C15World", "C15")):
        try:
            m = __import__("checks." + mod, fromlist=[name])
        except ModuleNotFoundError as e:
            if ("checks." + mod) in str(e):
                continue
            raise
        reg[pid] = getattr(m, name)
    return reg


class _Lazy(dict):
    _loaded = False

    def _load(self):
        if not self._loaded:
            self._loaded = True
            self.update(_registry())

    def __getitem__(self, k):
        self._load()
        return dict.__getitem__(self, k)

    def items(self):
        self._load()
        return dict.items(self)

    def __iter__(self):
        self._load()
        return dict.__iter__(self)


REGISTRY = _Lazy()
