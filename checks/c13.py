"""C13 - evaluation is free of side effects on arguments and on the model.

System: one model from the zoo and 2-3 simulated clients that own argument
tensors of different storage kinds (contiguous, view into a larger base,
non-contiguous, requires_grad leaf, stride-0 expanded, outputs passed back in) and
issue calls in a seeded order; faults: rejected calls, interrupts inside calls,
crash+restart.  All oracles are bitwise - no tolerances, hence no numerical false
alarms.
"""
import json

from sim import core, zoo
from sim.core import Violation, HarnessError
from sim.world import World, grad_ctx

OPKINDS = ["call", "train", "eval", "restart"]
STORES = ["plain", "view", "noncontig", "grad", "expand", "feedback", "chlast"]
INPLACE_REFUSALS = (
    "is being used in an in-place operation",
    "more than one element of the written-to tensor refers to a single memory location",
    "is a view and is being modified inplace",
    "is a view and its base or another view of its base has been modified inplace",
)


def _T():
    return core.boot()


def _bytes(t):
    return core.tbytes(t)


def _ver(t):
    try:
        return t._version
    except RuntimeError:      # inference tensors do not track a version counter
        return None


def _sd(module):
    # parameters and buffers are tensors; non-tensor extra state (format tags, provenance) is not model state
    return {k: _bytes(v) for k, v in module.state_dict().items() if hasattr(v, "dtype") and hasattr(v, "shape")}


def documented_statistics(root):
    """Keys that training-mode calls may change: decided structurally from the
    module types (nflows ActNorm / BatchNorm, torch.nn.BatchNorm1d/2d)."""
    torch = _T()
    from nflows.transforms.normalization import ActNorm, BatchNorm

    norm_types = (BatchNorm, ActNorm, torch.nn.modules.batchnorm._BatchNorm, torch.nn.modules.instancenorm._InstanceNorm)
    prefixes, frozen, actnorm = [], set(), []
    for name, mod in root.named_modules():
        pre = name + "." if name else ""
        if isinstance(mod, norm_types):
            # everything a normalisation layer keeps in the state dict under its own prefix counts as its statistics
            # (running mean/variance, counters, flags, extra state, however the layer organises them) - except its
            # trainable parameters, which are not statistics; ActNorm's are set once by its documented data-dependent
            # initialisation (handled by the caller through `actnorm`)
            prefixes.append(pre)
            frozen.update(pre + n for n, _ in mod.named_parameters(recurse=True))
        if isinstance(mod, ActNorm):
            actnorm.append((pre, mod))
    return (tuple(prefixes), frozen), actnorm


class Slot:
    __slots__ = ("tensor", "base", "bytes", "version", "base_bytes", "base_version", "clients", "store", "passed")


class C13World(World):
    prop = "C13"
    RULE = ("each run: one model drawn from the zoo (every exported transform family incl. couplings, autoregressive, splines, "
            "linear, normalisation, permutations, reshaping, non-linearities, containers; distributions; flows) and a seeded "
            "schedule of calls {forward, inverse, log_prob, sample, sample_and_log_prob, transform_to_noise} by 2-3 clients over "
            "a pool of argument tensors of seven storage kinds, with train()/eval(), rejected calls, interrupts at a seeded line "
            "inside nflows frames and crash+restart; after every op: every pooled tensor and its base storage has the same bytes "
            "and _version, in evaluation mode the state_dict is bit-identical, in training mode only documented statistics "
            "changed, and repeated signatures of the deterministic calls (forward, inverse, log_prob, transform_to_noise) return "
            "bit-identical results under any RNG state. Non-trivial iff >= 2 successful calls with a repeated signature or a non-plain storage kind; "
            "distinct = distinct (model label, op/call-kind sequence) among those.")
    REAL = ["every nflows class in the zoo (working tree of $VERIF_REPO)", "torch autograd version counters, state_dict, global RNG",
            "UMNN (third party, reached through the UMNN transforms)"]
    STUB = ["clients and their argument pools (seeded)", "storage medium and process boundary for restart (in-memory bytes, fresh instance)"]
    ASSUME = ["float32, CPU, one thread", "models are small (features <= 8); the zoo covers the constructor arguments it enumerates",
              "values are never compared across memory layouts (another BLAS path may differ in the last bit, which is not a side effect)",
              "which exception a rejected call raises is not judged (C17/C18)"]
    EXPECTED_PROBES = ["view_argument_with_live_base", "tensor_shared_between_clients", "output_fed_back_as_input",
                       "training_pass_changed_documented_statistics", "interrupt_fired_inside_call", "sample_with_context_and_batch_size",
                       "repeat_compared_bitwise", "rejected_call", "expanded_argument", "noncontiguous_argument"]

    # ------------------------------------------------------------ config
    @classmethod
    def gen_config(cls, rng, tier):
        spec = zoo.gen_spec(rng, allow_slow=rng.chance(0.15 if tier == "quick" else 0.3))
        cfg = {"spec": spec, "label": zoo.label(spec), "seed": rng.seed30(), "clients": rng.pick([2, 3]),
               "length": rng.pick([3, 4, 5, 6, 8, 10, 12, 15] if tier == "quick" else [5, 8, 12, 20, 30, 50]),
               "faulty": rng.chance(0.5), "start_eval": rng.chance(0.6),
               "store_w": {k: rng.pick([0, 1, 1, 3]) for k in STORES}, "opcode": bool(tier == "thorough" and rng.chance(0.25))}
        cfg["store_w"]["plain"] = max(cfg["store_w"]["plain"], 1)
        return cfg

    @classmethod
    def simplify_cfg(cls, cfg):
        out = []
        sp = cfg["spec"]
        if sp.get("net") and (sp["net"]["bn"] or sp["net"]["dropout"] or sp["net"]["blocks"] > 1):
            out.append(dict(cfg, spec=dict(sp, net=dict(sp["net"], bn=False, dropout=0.0, blocks=1))))
        if sp.get("ctx") and sp["family"] in ("coupling", "autoreg"):
            out.append(dict(cfg, spec=dict(sp, ctx=0)))
        if sp.get("dims") == 4 and sp["family"] in ("coupling", "nonlin"):
            out.append(dict(cfg, spec=dict(sp, dims=2)))
        if sp.get("family") == "container" and sp.get("variant") == "composite" and len(sp.get("parts", [])) > 1:
            for i in range(len(sp["parts"])):
                out.append(dict(cfg, spec=dict(sp, parts=sp["parts"][:i] + sp["parts"][i + 1:])))
        if sp.get("family") == "flow" and sp.get("variant") == "Flow" and len(sp.get("parts", [])) > 1:
            for i in range(len(sp["parts"])):
                out.append(dict(cfg, spec=dict(sp, parts=sp["parts"][:i] + sp["parts"][i + 1:])))
        for c in out:
            c["label"] = zoo.label(c["spec"])
        return out

    @classmethod
    def simplify_op(cls, op):
        out = []
        if op.get("interrupt"):
            o = dict(op); o.pop("interrupt"); out.append(o)
        if op.get("reject"):
            o = dict(op); o.pop("reject"); out.append(o)
        if op.get("target") is not None:
            o = dict(op); o.pop("target"); out.append(o)
        for key in ("x", "ctx"):
            d = op.get(key)
            if isinstance(d, dict):
                if d.get("store") != "plain":
                    out.append(dict(op, **{key: dict(d, store="plain", rep=False)}))
                if d.get("rows", 1) > 1:
                    out.append(dict(op, **{key: dict(d, rows=1)}))
        if op.get("grad") == "grad":
            out.append(dict(op, grad="no_grad"))
        if op.get("batch_size"):
            out.append(dict(op, batch_size=None))
        return out

    # ------------------------------------------------------------ set-up
    def __init__(self, cfg):
        super().__init__(cfg)
        self.entry = zoo.build(cfg["spec"], cfg["seed"])
        self.root = self.entry.obj
        if cfg["start_eval"]:
            self.root.eval()
        self.pool = {}
        self.descs = {}
        self.epoch = {}           # signature -> (result bytes, store kinds)
        self.diff = {}            # value signature -> {store: bytes}
        self.ok_calls = 0
        self.repeat = 0
        self.nonplain_ok = 0
        self.restarts = 0
        self.last_out = {}        # client -> last successful first output tensor
        self.returned = []        # (call, tensor, bytes, version) of the last few results handed to callers
        self.allowed, self.actnorms = documented_statistics(self.root)
        self.nmode = {pp: bool(self.root.training) for pp in self.allowed[0]}   # mode the caller gave each normalisation layer
        self.last_outcome = "none"

    def abstract(self):
        return (bool(self.root.training), min(self.ok_calls, 3), min(len(self.pool), 4), min(self.restarts, 2),
                self.last_outcome, min(self.repeat, 2))

    def nontrivial(self):
        return self.ok_calls >= 2 and (self.repeat > 0 or self.nonplain_ok > 0)

    # ------------------------------------------------------------ op generation
    def _desc(self, streams, role, rows=None):
        sched, data = streams["sched"], streams["data"]
        prev = [d for d in self.descs.values() if d["role"] == role]
        if prev and sched.chance(0.45):
            d = dict(sched.pick(prev))
            if sched.chance(0.5):
                # same values, another storage kind (differential) - keep rep so that values match
                if d["store"] in ("plain", "grad") and sched.chance(0.5):
                    d["store"] = "grad" if d["store"] == "plain" else "plain"
                else:
                    d["store"] = sched.weighted(STORES, [self.cfg["store_w"].get(k, 0) for k in STORES])
                if d["store"] == "expand" and not d.get("rep"):
                    d["store"] = "grad"
            if rows is not None:
                d["rows"] = rows
            return d
        store = sched.weighted(STORES, [self.cfg["store_w"].get(k, 0) for k in STORES])
        d = {"role": role, "seed": data.seed30(), "rows": rows if rows is not None else data.pick([1, 2, 2, 3, 4]),
             "store": store, "rep": store == "expand" or sched.chance(0.15), "scale": data.pick([1.0, 1.0, 3.0])}
        return d

    def gen_op(self, streams):
        sched, data, fault = streams["sched"], streams["data"], streams["fault"]
        r = sched.random()
        if r < 0.18:
            op = {"op": "train" if r < 0.08 else "eval"}
            if self.allowed[0] and sched.chance(0.3):
                # the caller switches one normalisation layer directly (a frozen, pretrained part inside a model that is
                # being trained - or the reverse); calls must respect the mode the caller gave each layer
                op["target"] = sched.randrange(8)
            return op
        if r < 0.21:
            return {"op": "restart", "seed": data.seed30()}
        e = self.entry
        fn = sched.pick(e.calls())
        op = {"op": "call", "fn": fn, "client": sched.randrange(self.cfg["clients"]), "rng": data.pick([1, 2, 3]),
              "grad": sched.weighted(["no_grad", "grad"], [2, 1])}
        # repeat an earlier signature of this epoch
        if self.epoch and sched.chance(0.3):
            prev = json.loads(sched.pick(sorted(self.epoch)))
            prev["client"] = op["client"]
            prev["rng"] = prev.get("rng", data.pick([1, 2, 3]))
            return prev
        rows = None
        if fn in ("forward", "log_prob", "transform_to_noise"):
            op["x"] = self._desc(streams, "x")
            rows = op["x"]["rows"]
        elif fn == "inverse":
            op["x"] = self._desc(streams, "y")
            rows = op["x"]["rows"]
        else:
            op["n"] = data.pick([1, 2, 3, 5])
            if fn == "sample" and sched.chance(0.4):
                op["batch_size"] = data.pick([1, 2, 3])
        if e.ctx is not None and (e.ctx_required or sched.chance(0.7)):
            op["ctx"] = self._desc(streams, "ctx", rows=rows)
        if self.cfg["faulty"]:
            if fault.chance(0.15):
                # log-uniform over the whole length of short and long calls (a big flow has thousands of line events)
                import math
                hi = 4000 * (8 if self.cfg.get("opcode") else 1)
                op["interrupt"] = max(1, int(math.exp(fault.random() * math.log(hi))))
            elif fault.chance(0.12):
                op["reject"] = fault.pick(["shape", "domain", "domain1", "nan1", "ctxrows"])
        return op

    # ------------------------------------------------------------ argument pool
    def _materialise(self, d, client):
        torch = _T()
        key = json.dumps({k: d[k] for k in ("role", "seed", "rows", "store", "rep", "scale") if k in d}, sort_keys=True)
        e = self.entry
        role = d["role"]
        if key in self.pool:
            s = self.pool[key]
            if client not in s.clients:
                s.clients.add(client)
                self.probes["tensor_shared_between_clients"] += 1
            return key, s.tensor
        rows = int(d["rows"])
        if role == "ctx":
            val = core.seeded(d["seed"] + 17, (rows,) + e.ctx)
        else:
            val = zoo.make_input(e, d["seed"], rows, inverse=(role == "y"), scale=float(d.get("scale", 1.0)))
        if d.get("rep") and rows > 1:
            val = val[:1].expand_as(val).contiguous()
        store = d.get("store", "plain")
        base = None
        if store == "feedback":
            src = self.last_out.get(client)
            if src is not None and tuple(src.shape) == tuple(val.shape) and src.dtype == val.dtype:
                t = src
                self.probes["output_fed_back_as_input"] += 1
            else:
                t = val.clone()
        elif store == "view":
            base = torch.zeros((rows + 2,) + tuple(val.shape[1:]), dtype=val.dtype)
            base[0] = 7.0
            base[-1] = -7.0
            base[1:rows + 1] = val
            t = base[1:rows + 1]
            self.probes["view_argument_with_live_base"] += 1
        elif store == "noncontig":
            perm = list(range(val.dim()))[::-1]
            base = val.permute(*perm).contiguous()
            t = base.permute(*perm)     # same values as val, reversed strides
            self.probes["noncontiguous_argument"] += 1
        elif store == "grad":
            t = val.clone().requires_grad_(True)
        elif store == "chlast" and val.dim() == 4:
            # NHWC memory behind an NCHW tensor: permute(0, 2, 3, 1).reshape(...) is then a *view* of the caller's storage
            t = val.clone().contiguous(memory_format=torch.channels_last)
            self.probes["channels_last_argument"] += 1
        elif store == "expand":
            base = val[:1].clone()
            t = base.expand(rows, *val.shape[1:])
            self.probes["expanded_argument"] += 1
        else:
            t = val.clone()
        s = Slot()
        s.tensor, s.base, s.store = t, base, store
        s.bytes, s.version = _bytes(t), _ver(t)
        s.base_bytes = _bytes(base) if base is not None else None
        s.base_version = _ver(base) if base is not None else None
        s.clients = {client}
        s.passed = False
        self.pool[key] = s
        self.descs[key] = {k: d[k] for k in ("role", "seed", "rows", "store", "rep", "scale") if k in d}
        return key, t

    def _check_returned(self, when):
        for fn, t, b, v in self.returned:
            if _ver(t) != v or _bytes(t) != b:
                raise Violation("previously_returned_tensor_modified", "%s: a tensor returned earlier by %s was changed "
                                "(version %s -> %s)" % (when, fn, v, _ver(t)))

    def _check_pool(self, when):
        self._check_returned(when)
        for key, s in self.pool.items():
            if _ver(s.tensor) != s.version or _bytes(s.tensor) != s.bytes:
                raise Violation("caller_tensor_modified", "%s: argument %s (version %d -> %d, bytes %s)" % (
                    when, key, s.version or -1, _ver(s.tensor) or -1, "changed" if _bytes(s.tensor) != s.bytes else "same"))
            if s.base is not None and (_ver(s.base) != s.base_version or _bytes(s.base) != s.base_bytes):
                raise Violation("caller_tensor_modified", "%s: base storage behind %s (version %d -> %d)" % (
                    when, key, s.base_version or -1, _ver(s.base) or -1))

    # ------------------------------------------------------------ step
    def step(self, op, log):
        kind = op["op"]
        if kind in ("train", "eval"):
            prefixes = self.allowed[0]
            flag = kind == "train"
            if op.get("target") is not None and prefixes:
                pre = prefixes[int(op["target"]) % len(prefixes)]
                mod = self.root.get_submodule(pre[:-1]) if pre else self.root
                mod.train(flag)
                self.nmode[pre] = flag
                for pp in prefixes:          # normalisation layers nested below the target follow it
                    if pp.startswith(pre):
                        self.nmode[pp] = flag
                if any(v != bool(self.root.training) for v in self.nmode.values()):
                    self.probes["normalisation_layer_in_other_mode_than_root"] += 1
            else:
                (self.root.train if flag else self.root.eval)()     # the property speaks of calls, not of mode switches
                self.nmode = {pp: flag for pp in prefixes}
            self.epoch, self.diff = {}, {}
            log.add(kind, op.get("target"))
        elif kind == "restart":
            self.save_bytes("ckpt", self.root.state_dict())
            try:
                fresh = zoo.build(self.cfg["spec"], int(op["seed"]))
                fresh.obj.load_state_dict(self.load_bytes("ckpt"), strict=True)
            except Exception as ex:   # noqa: BLE001
                # e.g. an ActNorm whose first training batch had a wrong feature count re-shaped its own
                # parameters: whether a state dict reloads is C15's business (on valid histories), not C13's
                self.probes["restart_skipped_checkpoint_does_not_reload"] += 1
                log.add("restart_skipped", type(ex).__name__)
                self._check_pool("after restart")
                return
            if not self.root.training:
                fresh.obj.eval()
            self.entry, self.root = fresh, fresh.obj
            self.allowed, self.actnorms = documented_statistics(self.root)
            self.nmode = {pp: bool(self.root.training) for pp in self.allowed[0]}
            self.epoch, self.diff = {}, {}
            self.restarts += 1
            self.faults["crash_restart"] += 1
            log.add("restarted")
        elif kind == "call":
            self._call(op, log)
        else:
            raise HarnessError("unknown op %r" % (op,))
        self._check_pool("after " + (op.get("fn") or kind))

    def _args(self, op):
        torch = _T()
        e = self.entry
        client = op.get("client", 0)
        keys = []
        x = ctx = None
        rej = op.get("reject") if self.cfg["faulty"] else None
        if "x" in op:
            k, x = self._materialise(op["x"], client)
            keys.append(k)
        if "ctx" in op and e.ctx is not None:
            k, ctx = self._materialise(op["ctx"], client)
            keys.append(k)
        # rejected calls use throw-away tensors that are still watched through the pool
        if rej == "shape" and x is not None:
            d = dict(op["x"], role=op["x"]["role"], seed=op["x"]["seed"] + 1, store="plain")
            bad = torch.cat([x.detach(), x.detach()], dim=1).clone()
            x = self._adopt("rej-shape-%d" % op["x"]["seed"], bad, client)
        elif rej == "domain" and x is not None:
            bad = (x.detach() * 0 + 37.5).clone()
            bad[0].fill_(-37.5)
            x = self._adopt("rej-domain-%d" % op["x"]["seed"], bad, client)
        elif rej in ("domain1", "nan1") and x is not None:
            bad = x.detach().clone()
            bad.reshape(-1)[-1] = 37.5 if rej == "domain1" else float("nan")   # a single offending element, late in the batch
            x = self._adopt("rej-%s-%d-%d" % (rej, op["x"]["seed"], op["x"]["rows"]), bad, client)
        elif rej == "ctxrows" and ctx is not None:
            bad = torch.cat([ctx.detach(), ctx.detach()[:1]], dim=0).clone()
            ctx = self._adopt("rej-ctx-%d" % op["ctx"]["seed"], bad, client)
        return x, ctx, keys

    def _adopt(self, key, t, client):
        if key in self.pool:
            return self.pool[key].tensor
        s = Slot()
        s.tensor, s.base, s.store = t, None, "plain"
        s.bytes, s.version, s.base_bytes, s.base_version = _bytes(t), _ver(t), None, None
        s.clients, s.passed = {client}, True
        self.pool[key] = s
        return t

    def _call(self, op, log):
        torch = _T()
        e, root = self.entry, self.root
        fn = op["fn"]
        if fn not in e.calls():
            log.add("call_not_supported_by_model")
            return
        x, ctx, keys = self._args(op)
        training = bool(root.training)
        before = _sd(root)
        init_before = [bool(getattr(m, "initialized", False)) for _, m in self.actnorms]
        k = op.get("interrupt") if self.cfg["faulty"] else None
        n = int(op.get("n", 2))
        bs = op.get("batch_size")
        if fn == "forward":
            thunk = lambda: root(x, ctx)                                   # noqa: E731
        elif fn == "inverse":
            thunk = lambda: root.inverse(x, ctx)                           # noqa: E731
        elif fn == "log_prob":
            thunk = lambda: root.log_prob(x, ctx)                          # noqa: E731
        elif fn == "sample":
            thunk = (lambda: root.sample(n, context=ctx, batch_size=bs)) if bs else (lambda: root.sample(n, context=ctx))
            if ctx is not None and bs:
                self.probes["sample_with_context_and_batch_size"] += 1
        elif fn == "sample_and_log_prob":
            thunk = lambda: root.sample_and_log_prob(n, context=ctx)       # noqa: E731
        elif fn == "transform_to_noise":
            thunk = lambda: root.transform_to_noise(x, ctx)                # noqa: E731
        else:
            raise HarnessError(fn)
        core.seed_global(op.get("rng", 1))
        err = res = None
        fired = False
        with grad_ctx(op.get("grad", "no_grad")):
            try:
                fired, seen, res = core.call_interruptible(thunk, k, opcode=self.cfg.get("opcode", False))
            except Exception as ex:   # noqa: BLE001 - which exception is C17/C18's business
                err = ex
        if k:
            if fired:
                self.faults["interrupt_in_call"] += 1
                self.probes["interrupt_fired_inside_call"] += 1
            else:
                self.faults_missed["interrupt_in_call"] += 1
        if op.get("reject") and self.cfg["faulty"] and err is not None:
            self.faults["rejected_call"] += 1
            self.probes["rejected_call"] += 1
        # ---- invariant 1 is checked by step(); invariants 3 / 4 on the model:
        after = _sd(root)
        changed = sorted(kk for kk in set(after) | set(before) if after.get(kk) != before.get(kk))
        # a key may change only if it belongs to a normalisation layer that the caller left in training mode (the root's
        # mode unless the caller switched that layer directly) and is not one of its trainable parameters
        prefixes, frozen = self.allowed
        frozen = set(frozen)
        for (pre, mod), was in zip(self.actnorms, init_before):
            if not was:
                # the documented data-dependent initialisation sets ActNorm's own parameters once
                frozen -= {pre + n for n, _ in mod.named_parameters(recurse=True)}

        def _may(kk):
            return kk not in frozen and any(kk.startswith(pp) and self.nmode.get(pp, training) for pp in prefixes)

        extra = [kk for kk in changed if not _may(kk)]
        if extra:
            tail = " (interrupted)" if fired else (" (raised %s)" % type(err).__name__ if err else "")
            in_eval_layer = [kk for kk in extra if any(kk.startswith(pp) and not self.nmode.get(pp, training) for pp in prefixes)]
            if not training:
                raise Violation("model_state_changed_in_eval", "%s%s changed %s" % (fn, tail, extra[:6]))
            if in_eval_layer and len(in_eval_layer) == len(extra):
                raise Violation("statistics_changed_in_layer_left_in_eval", "%s%s changed %s of a normalisation layer the "
                                "caller had put in evaluation mode" % (fn, tail, in_eval_layer[:6]))
            raise Violation("undocumented_state_changed_in_training", "%s changed %s" % (fn, extra[:6]))
        if changed:
            self.probes["training_pass_changed_documented_statistics"] += 1
        if fired:
            self.last_outcome = "interrupted"
            log.add("interrupted")
            return
        if err is not None:
            msg = str(err)
            if any(p in msg for p in INPLACE_REFUSALS):
                raise Violation("inplace_write_on_caller_tensor_refused_by_torch", "%s: %s" % (fn, msg[:300]))
            self.last_outcome = "raised"
            log.add("raised", type(err).__name__)
            return
        outs = res if isinstance(res, tuple) else (res,)
        self.last_outcome = "ok"
        self.ok_calls += 1
        for kk in keys:
            self.pool[kk].passed = True
        stores = [op[a]["store"] for a in ("x", "ctx") if isinstance(op.get(a), dict)]
        if any(s != "plain" for s in stores):
            self.nonplain_ok += 1
        sampling = fn in ("sample", "sample_and_log_prob")
        if outs and isinstance(outs[0], torch.Tensor) and not sampling:
            self.last_out[op.get("client", 0)] = outs[0].detach()
        # results handed to a caller are the caller's tensors from then on: watch the last few of them
        for o in outs:
            if isinstance(o, torch.Tensor):
                t = o.detach()
                self.returned.append((fn, t, _bytes(t), _ver(t)))
        del self.returned[:-6]
        rb = b"".join(_bytes(o) for o in outs)
        # sampled values stay out of the event log and out of the feedback store: a library may draw from a generator
        # of its own, and the property says "up to sampling randomness"
        log.add("ok", "sampled" if sampling else rb)
        if op.get("reject"):
            return
        # ---- invariant 5: order independence in evaluation mode (bitwise)
        if not training and not any(self.nmode.values()):
            sig = dict(op)
            sig.pop("client", None)
            if fn in ("forward", "inverse", "log_prob", "transform_to_noise"):
                sig.pop("rng", None)     # deterministic calls: same bits under any RNG state
            skey = json.dumps(sig, sort_keys=True)
            if "feedback" not in stores and fn not in ("sample", "sample_and_log_prob"):
                # sampling calls are exempt: the property says "up to sampling randomness", and a library is free to
                # draw from a generator of its own instead of the global one
                if skey in self.epoch:
                    self.repeat += 1
                    self.probes["repeat_compared_bitwise"] += 1
                    self.comparisons += 1
                    if self.epoch[skey] != rb:
                        raise Violation("repeated_call_differs", "%s: same arguments and RNG state, different bits" % fn)
                else:
                    self.epoch[skey] = rb
