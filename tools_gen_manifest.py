#!/usr/bin/env python3
"""Regenerates MANIFEST.json from one place so that it is always schema-valid.
Run:  python3 tools_gen_manifest.py   (idempotent; no run-time use)."""
import json, subprocess

NA = {
 "C01": "pure per-call function of (parameters, input): no schedule, clock, fault or history in it; the cache on/off facet is decided by C10",
 "C02": "pure per-call numerical identity (inverse o forward); no state, ordering or fault to simulate",
 "C03": "an integral over the input space of a pure function (quadrature), nothing a scheduler or fault injector can vary",
 "C04": "with the RNG behind a seam a call is a pure function of (RNG state, arguments); row pairing and distribution fit are input/statistical checks, not histories",
 "C05": "integrals and sample statistics of pure functions; no history, fault or interleaving",
 "C06": "structural fact about mask matrices fixed at construction; no execution history involved",
 "C07": "pure per-call dependence/equality statement over masks and inputs",
 "C08": "pure function of (nesting program, input); wrapper state is fixed at construction and never mutated by calls",
 "C09": "pure scalar-function property over inputs near knots; stateless",
 "C11": "pure algebraic agreement of accessors for fixed parameters (the cache that consumes them is decided by C10)",
 "C12": "for a fixed state a pure metamorphic relation over batch composition; its only stateful ingredient (running statistics in eval) is asserted by C14's reference model",
 "C16": "pure per-call comparison of autograd with finite differences; the one history facet (repeated backward through a cache) is inside C10",
 "C17": "pure per-call input-classification property",
 "C18": "pure function of the arguments; batched sampling re-chunks RNG draws but has no state, order or fault",
 "C19": "pure numerical comparison of two evaluations of the same call",
 "C20": "stateless helper functions, pure by construction",
}

CHECKS = json.load(open("checks/registry.json")) if __import__("os").path.exists("checks/registry.json") else []

m = {
 "version": 1,
 "setup_cmd": "/venv/bin/python check --setup",
 "hooks": {
  "guard": "NFLOWS_VERIF",
  "enable": "no hooks exist: every seam the simulator needs (global torch RNG, nn.Module API, forward pre-hooks, sys.settrace) is already public; checks import nflows from $VERIF_REPO (default /repo) working tree as it is",
  "baseline_off_cmd": "cd /repo && /venv/bin/python -m pytest -ra -q -p no:cacheprovider --timeout=900 --continue-on-collection-errors",
  "source_commits": [],
  "add_only": True,
 },
 "engines": [
  {"name": "nflows-dst", "path": "sim/", "serves_properties": [c["property_id"] for c in CHECKS],
   "kind_free_text": "deterministic simulation: seeded scheduler over JSON op histories on real nflows objects, fault injection (crash+restart through torch.save/load into a differently seeded incarnation, rejected calls, failed partial loads, settrace interrupts, ambient mode/dtype changes), per-step oracles (uncached twin, executable reference model, bitwise snapshots), ddmin shrinking, exact replay files"},
 ],
 "checks": CHECKS,
 "not_applicable": [{"property_id": k, "reason": v} for k, v in sorted(NA.items())],
 "notes": "Technique family: deterministic simulation with fault injection. Only the four history-quantified properties (C10, C13, C14, C15) have something for a simulator to schedule; the other sixteen are pure per-call functions (DESIGN.md section 6).",
}
json.dump(m, open("MANIFEST.json", "w"), indent=1)
print("wrote MANIFEST.json with", len(CHECKS), "checks")
