#!/bin/bash
# Soak: many VERIF_SEED values of the quick tier (and optionally thorough) against a repo snapshot.
#   vp run --with-repo --timeout 6h -- bash tools_soak.sh C10 1 60 quick 6
prop=$1; from=$2; to=$3; tier=${4:-quick}; workers=${5:-6}
export VERIF_REPO=${VP_RUN_REPO:-/repo}
bad=0
for s in $(seq $from $to); do
  out=$(VERIF_SEED=$s /venv/bin/python check $prop --tier $tier --workers $workers --no-evidence 2>&1); rc=$?
  echo "seed=$s rc=$rc $(echo "$out" | grep '^\['$prop'\] runs=' | cut -c1-230)"
  if [ $rc -ne 0 ]; then bad=$((bad+1)); echo "$out" | tail -30; fi
done
echo "SOAK DONE prop=$prop seeds=$from..$to bad=$bad"
