#!/usr/bin/env python3
"""Take a sub-agent delivery (<dir> with patch.diff, demo.py, notes.md) into seeded/<id>/ and confirm it.

  python3 tools_ingest.py <delivery dir> <seeded id> <property> "<what>" "<needs>"
"""
import json, os, shutil, sys
import tools_seeded

ROOT = os.path.dirname(os.path.abspath(__file__))
src, sid, prop, what, needs = sys.argv[1:6]
d = os.path.join(ROOT, "seeded", sid)
os.makedirs(d, exist_ok=True)
for f in ("patch.diff", "demo.py", "notes.md"):
    if os.path.exists(os.path.join(src, f)):
        shutil.copy(os.path.join(src, f), os.path.join(d, f))
meta = {"id": sid, "property": prop,
        "origin": "independent sub-agent (property text + scratch worktree; round 6: told which ideas were already used)",
        "what": what, "needs": needs, "demo": "demo.py", "detected_by": "?",
        "confirmed": "tools_seeded.py confirm (scratch worktree): demo exit 0 without / non-zero with the change; 147 baseline tests pass with it (only the 7 always-failing torch.qr tests fail)"}
json.dump(meta, open(os.path.join(d, "meta.json"), "w"), indent=1)
ok = tools_seeded.confirm(sid)
sys.exit(0 if ok else 1)
